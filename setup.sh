#!/bin/sh
# Build the framework offline from files on disk only.
set -e
cd "$(dirname "$0")"
export CARGO_NET_OFFLINE=true
(cd tools/vp-extract && cargo build --release --offline 2>&1 | tail -2)
test -x tools/vp-extract/target/release/vp-extract
mkdir -p .cache evidence replays
echo setup ok
