#!/bin/bash
# Re-run `seed.py check <id>` for every seeded change (2 at a time); logs under .cache/seedlogs/.
cd "$(dirname "$0")/.." || exit 2
mkdir -p .cache/seedlogs
rm -f .cache/seedlogs/done
ls seeded | xargs -P "${VP_SEED_JOBS:-2}" -I{} bash -c 'python3 lib/seed.py check {} > .cache/seedlogs/{}.log 2>&1'
date > .cache/seedlogs/done
