"""Per-property registry: what is claimed, the level text, trusted base.  MANIFEST.json is generated
from this file by `./check --manifest` so the two cannot drift."""

COMMON_TB = [
    "Verus 0.2026.09.13 + its Z3; Kani 0.68 / CBMC 6.11; rustc",
    "tools/vp-extract (syn parser + text edits, rewrite rules R0-R22 of DESIGN §3.2; every application counted in evidence)",
]

PROPS = {
    "C16": {
        "technique": "Kani function contracts / full-domain loop-free harnesses against RFC 9000 spec functions",
        "text": "Complete (unbounded-domain) proof by CBMC: every harness ranges over the full input domain (all u64, all 9-byte windows with every length, all usize increments); the decode loop is bounded by the code's own 8-byte maximum and unwinding assertions are on, so no input-length bound is introduced.",
        "note": "Trusts Kani/CBMC, rustc; bytes' impl of Buf for &[u8] and BufMut for &mut [u8] are compiled in and symbolically executed, not assumed. The executable spec (kani/_spec.rs) is the RFC 9000 oracle.",
        "design_ref": "§4 C16",
        "trusted_base": ["Kani 0.68 / CBMC 6.11 / CaDiCaL; rustc", "kani/_spec.rs: spec_varint_enc/dec, stream-id algebra transcribed from RFC 9000 §16, §2.1"],
        "assumptions": ["usize is 64 bits (x86_64 target)"],
    },
}

PROPS["C02"] = {
    "technique": "Verus contracts on the extracted frame layer (Frame::decode, FrameDecoder, FrameStream, BufList/Cursor) against an RFC 9114 §7.1 spec function; Kani for VarInt::decode",
    "text": "Unbounded deductive proof, function by function: BufList/Cursor are proved to implement the Buf contract with view = concatenation of chunks (unit buf); Frame::decode, FrameDecoder::decode, BufRecvStream::poll_read, FrameStream::{try_recv,poll_next,poll_data} are proved against that contract only, so chunk boundaries cannot influence any result; postconditions state exact consumption (header + declared length), skipping of unknown frames in full, Malformed for payloads longer/shorter than the fixed fields, UnexpectedEnd for a frame or DATA payload cut by FIN, the decoder memo never hiding a whole frame, and no Pending after FIN.",
    "note": "Assumes the bytes::Buf/Bytes/Take contracts (units/inc/buf_trait.rs, take_shim.rs), VecDeque front/front_mut specs, std Poll/From identity specs, that a transport never yields an empty chunk, VarInt::decode's contract for arbitrary Buf (proved by Kani for &[u8]), Settings::decode consuming its payload (unit settings_decode). The mapping FrameProtocolError -> H3_FRAME_ERROR / H3_FRAME_UNEXPECTED codes is checked in the units of C03/C04/C07. Loops that end only when the transport answers Pending are proved for partial correctness.",
    "design_ref": "§4 C02, §7c",
    "trusted_base": COMMON_TB + ["bytes::{Buf,Bytes,Take} contracts (inc/buf_trait.rs, inc/take_shim.rs)", "quic::RecvStream weakest contract with non-empty chunks (inc/quic_recv.rs)", "std: VecDeque::front/front_mut, Poll Try/FromResidual, reflexive From (assume_specification)", "inc/vdec.rs = kani/_spec.rs spec_varint_dec (RFC 9000 §16)"],
    "assumptions": ["transport chunks are never empty", "usize is 64 bits", "Settings::decode reads its payload to the end when it succeeds (proved in unit settings_decode)"],
}
PROPS["C17"] = {
    "technique": "Verus contracts on the extracted h3-quinn adapter against an assumed Quinn contract",
    "text": "Unbounded deductive proof of the adapter's own logic: the poll_ready write loop conserves and completes the buffer for every sequence of partial write results, send_data refuses while a write is unfinished, stream ids are fixed at construction and reported without precondition, the Quinn error tables are total and preserve the peer's codes, every read is ordered.",
    "note": "Relative to Quinn: poll_write/read_chunk/stop/reset/finish/id are assumed to behave as documented (enum shims pinned by units/quinn_adapter.shimcheck.rs); the async read block is replaced by a shim future (rule R19 via //@subst); no concrete replay without a live endpoint (demo test in findings/C17_recv_id_pending uses a loopback).",
    "design_ref": "§4 C17",
    "trusted_base": COMMON_TB + ["assumed quinn 0.11 contract (mod quinn in units/quinn_adapter.rs.in)", "ReusableBoxFuture / read_chunk future shim", "WriteBuf / EncodedDatagram as opaque Buf (C14/C18 harnesses)"],
    "assumptions": ["Quinn behaves as documented, flow control included", "&mut self exclusivity (no concurrent access to one stream handle)"],
}

PROPS["C05"] = {
    "technique": "Verus contracts on the extracted error-handling functions with a prophecy model of the write-once error cell",
    "text": "Unbounded deductive proof of the sequential content: every ConnectionError any handle returns equals the conversion of the cell's single winner; once the driver has handled an error every later call returns it and touches nothing; conn.close is called at most once, only for errors h3 itself detected, with exactly that error's code. The signalling half of the wake-up protocol is decided in program order: set_conn_error_and_wake has stored the error before it wakes the driver. PARTIAL: the rest of the schedule part of the statement (the driver's check/register window, i.e. the lost wake-up under all interleavings) is NOT decided — effects of &self calls on std atomics are invisible to contracts and Kani has no threads; a change that only reorders check/register, or drops the repeated look into the cell, is not detected.",
    "note": "OnceLock modelled by prophecy (winner() is an immutable attribute of the cell; get/get_or_init only ever reveal it), AtomicWaker/AtomicBool without effect in contracts, transport close() recorded in a ghost log. Schedules (interleavings of shared-state operations) are outside this family: listed as unchecked assumption.",
    "design_ref": "§4 C05, §6",
    "trusted_base": COMMON_TB + ["OnceLock prophecy shim, AtomicWaker/AtomicBool shims (inc/shared_state_shim.rs)", "error enums extracted from /repo (inc/errors.rs); dyn Error payloads replaced by an opaque type (R0)"],
    "assumptions": ["UNCHECKED: no wake falls unnoticed between the driver's look into the cell and its waker registration (poll_connection_error looks first, registers second; each driver poll runs it at least twice, so a later look follows the first registration — argued over interleavings, not proved)", "store-before-wake is decided in program order only; that it excludes a lost wake-up under every interleaving is the standard AtomicWaker argument", "impl Drop for server::Connection closes again with H3_NO_ERROR (outside the contracts; quinn ignores a second close)"],
}
PROPS["C07"] = {
    "technique": "Verus contracts on the extracted request-level error paths; the escalation entry carries the precondition is_connection_scoped(cause)",
    "text": "Unbounded deductive proof: every path from a stream-scoped fault (peer RESET/STOP_SENDING, malformed message, section over the limit, FIN before HEADERS on either role) yields the stream-level outcome with the appropriate code (peer's code preserved), touches only this stream's ghost logs, and cannot reach the connection-error entry, whose precondition admits connection-scoped causes only. Independence of other requests is argued from ownership: the field lists of SharedState and of the request handles are pinned mechanically (a new shared field makes the run undecided); it is not proved about schedulers. In the Quinn adapter (unit quinn_adapter) a write that Quinn refuses for good leaves the adapter idle — no buffer is kept that would make the next frame on that stream look like misuse of the traits and turn the stream error into a connection error ([C07.write.error.idle]; the defect found there is fixed).",
    "note": "Callee contracts assumed from other units: FrameStream::poll_next/is_eos (frames), decode_stateless (qpack_stateless), Header::try_from/into_*_parts (headers), send_response frame; http builders; await-erasure (R4) with poll_fn sites replaced by a shim (R0).",
    "design_ref": "§4 C07, §6",
    "trusted_base": COMMON_TB + ["callee contracts marked ASSUMED-FROM-UNIT in units/error_scope.rs.in", "Rust ownership/aliasing for cross-request independence (argued)", "await-erasure R4"],
    "assumptions": ["task interleavings: independence rests on ownership + the pinned field list of SharedState", "a path that escalates with a connection-scoped code yet returns a stream-level error is not excluded (mutant B23)"],
}

PROPS["C08"] = {
    "technique": "Verus step contracts on the extracted shutdown/accept/GOAWAY functions over ghost transport logs; Kani for the StreamId arithmetic",
    "text": "Unbounded deductive proof of step contracts from an arbitrary well-formed pre-state: the GOAWAY ids written to the control stream never increase over any history of shutdown(n) calls (state invariant over the ghost sent log + memo); every stream taken from the transport with id >= the last identifier sent is stopped and reset with H3_REQUEST_REJECTED and never returned, every stream below it is returned untouched; every id handed out is below every identifier sent; the client folds received GOAWAYs: larger id or non-request id ⇒ H3_ID_ERROR, otherwise limit stored and closing set; send_request opens no stream once closing.",
    "note": "Transport modelled by its weakest contract with ghost logs (arrival in any order); tokio mpsc as ghost FIFO; closing flag monotone; derived Ord/Eq/Hash on the id types compare the u64 field (axiom); StreamId + usize from Kani c16_streamid_add_saturates; await-erasure R4 (a dropped shutdown future after the memo was lowered is noted, not excluded); callee contracts assumed from units conn_error, control, frames.",
    "design_ref": "§4 C08",
    "trusted_base": COMMON_TB + ["quic trait contract with ghost logs, tokio mpsc FIFO shim, closing flag shim (inc/goaway_common.rs)", "axiom_id_derives (derived Ord/Eq/Hash)", "Kani c16_streamid_add_saturates, c16_streamid_fields"],
    "assumptions": ["task interleavings: &mut self exclusivity across awaits (R4)", "initial state of the server Connection (built in the builder) is well-formed"],
}
PROPS["C09"] = {
    "technique": "Verus ownership obligations O1-O6 on the request-end notifier (ghost multiset of live notifiers + channel FIFO)",
    "text": "Unbounded deductive proof of the safety half and of coverage: accepting a stream records its id; the value returned by accept() owns exactly one drop-notifier for that id on this connection's channel (ownership derived from the real struct fields on every run); Drop sends the id; poll_requests_completion removes exactly the received ids and answers Ready iff the channel is closed and drained or nothing is outstanding; Ok(None) only then and only after a shutdown was signalled. 'As soon as' (liveness) is assumed via tokio's wake contract and Rust's drop semantics.",
    "note": "tokio mpsc as ghost FIFO with a rewoken flag; every owned value is eventually dropped (Rust semantics); RequestStream::split sharing the Arc and ResolvedRequest::resolve are not under contract in this unit; h3-webtransport's accept path is out of scope.",
    "design_ref": "§4 C09",
    "trusted_base": COMMON_TB + ["tokio mpsc FIFO shim", "Rust drop semantics (every owned value is dropped or explicitly forgotten; no mem::forget in the unit)"],
    "assumptions": ["fairness: a registered waker leads to a re-poll", "drop timing"],
}

PROPS["C10"] = {
    "technique": "Verus contracts: running-size loop of decode_stateless against spec_section_size, encode_stateless' returned size, and the send/receive comparison sites over the transport's ghost log",
    "text": "Unbounded deductive proof: Ok(d) from decode_stateless implies d.mem_size == Σ(|name|+|value|+32) <= max and HeaderTooLong(n) is answered exactly when the running size first exceeds max (so size == limit is accepted, limit+1 refused, for every limit incl. 0 and 2^62-1); no u64 overflow for inputs < 2^50 bytes; encode_stateless returns that size; at the three send sites at most one HEADERS frame reaches the stream's ghost log and only if the size is <= the peer's advertised limit (2^62-1 while the peer's SETTINGS have not arrived), otherwise HeaderTooBig and nothing is handed over (send_request: the limit is the client's understanding of the peer's settings after the wait for a stream, when the frame is handed over — the passage of time across that wait is modelled); an oversized request yields HeaderTooBig after exactly one 431 attempt through the same limit check and no connection error.",
    "note": "prefix_int/prefix_string/static table by their contracts (Kani C15/C11 harnesses); OnceLock by prophecy; await-erasure (R4); http builders; the receive sites recv_response / poll_recv_trailers carry their size clauses in unit error_scope ([C07.toobig*]).",
    "design_ref": "§4 C10",
    "trusted_base": COMMON_TB + ["inc/qpack_spec.rs (RFC 9204 / RFC 9114 §4.2.2 spec functions and 45 lemmas)", "axioms: Huffman round trip / 5-bit shortest code (C15), static entries <= 100 bytes, Cow deref", "callee contracts ASSUMED-FROM-UNIT (kani c15_*, c11_static_*, error_scope, headers)"],
    "assumptions": ["input field sections shorter than 2^50 bytes", "usize is 64 bits", "ASSUMED vp_suspended(): while send_request waits for a stream, the settings cell may only go from empty to its one eventual value; other awaits treat shared cells as stable (R4)"],
}
PROPS["C11"] = {
    "technique": "Verus contracts: field-line codecs, HeaderPrefix, decode_stateless/encode_stateless against an RFC 9204 §4.5 spec function; Kani for the static table (vs. an independent App. A transcription) and the first-byte dispatch",
    "text": "Unbounded deductive proof that decode_stateless(s,max) agrees with spec_field_section(s,max) (accepted ⇔ valid RFC 9204 encoding with static/literal lines only, Required Insert Count 0, S = 0, and the decoded list is the spec's, in order; every rejected class is an Err) and that what encode_stateless writes decodes, by the spec, to exactly the input list; each codec consumes/writes exactly its octets. The static table is checked entry by entry against an independent transcription of RFC 9204 Appendix A (Kani, complete for the finite table), the dispatcher over all 256 first bytes.",
    "note": "String/integer codecs by their contracts (C15 Kani harnesses; prefix_string::encode's string-level contract is assumed — per-symbol tables and bit kernels are proved, no whole-string encode harness); Huffman round-trip axiom on the spec side; SPEC_STATIC_TABLE transcribed by hand (0 mismatches with the repository).",
    "design_ref": "§4 C11",
    "trusted_base": COMMON_TB + ["inc/qpack_spec.rs", "kani/_spec.rs SPEC_STATIC_TABLE (hand transcription of RFC 9204 App. A)", "axiom_huff, axiom_huff_len, axiom_static, axiom_pint_max_cont"],
    "assumptions": ["input shorter than 2^50 bytes", "prefix_string::encode appends spec_string_enc (assumed at string level)"],
}
PROPS["C13"] = {
    "technique": "Kani full-domain harnesses for config -> SETTINGS bytes, Settings::{insert,encode}, SettingId predicates; Verus loop proof for Settings::decode against spec_settings_verdict",
    "text": "Settings::decode is proved (Verus, unbounded) to read a whole number of (varint,varint) pairs to the end of the payload, store exactly the understood pairs in order with pairwise distinct ids, ignore unknown ids however many, and answer Malformed / InvalidSettingId / Repeated exactly for truncated / HTTP/2-reserved / repeated ids (Exceeded is unreachable by a pigeonhole lemma). The sending side is proved by Kani over every Config value: conversion and encode never panic, emit exactly the configured values, no id twice, no reserved id, a well-formed grease id, within the 64-byte write buffer.",
    "note": "insert's contract from Kani (c13_insert_contract) is assumed in the Verus unit clause by clause; fastrand stubbed to any value in range; defaults-until-SETTINGS via the OnceLock prophecy in unit size_limit_sites ([C13.defaults]).",
    "design_ref": "§4 C13",
    "trusted_base": COMMON_TB + ["kani/_spec.rs spec_settings_* (RFC 9114 §7.2.4)", "fastrand::u64 returns a value in the requested range (stub)"],
    "assumptions": ["usize is 64 bits"],
}

PROPS["C04"] = {
    "technique": "Verus contracts on the extracted control / unidirectional-stream state machines (poll_next_varint, poll_type, poll_accept_recv, poll_control, role filters) against RFC 9114 §6.2, §7.2 outcome tables and a fold over the peer's streams",
    "text": "Unbounded deductive proof of step contracts from arbitrary well-formed pre-states: the stream type (and id) is the RFC 9000 varint reading of the first bytes for every length form and chunk split; EOS/reset before the type is complete is never a connection error; the state after poll_accept_recv equals the RFC fold over the disposition log (second control/encoder/decoder stream ⇒ H3_STREAM_CREATION_ERROR, unknown type ⇒ stop_sending(0x103) on that stream only, WebTransport uni streams queued iff the extension is enabled, no pending entry lost); poll_control maps what the frame stream answered to the outcome (first frame not SETTINGS ⇒ 0x10a, second SETTINGS/DATA/HEADERS/PUSH_PROMISE ⇒ 0x105, close/reset ⇒ 0x104, truncated ⇒ 0x106, reserved types ⇒ 0x105) and never returns Pending having consumed a frame; server and client filters.",
    "note": "FrameStream::poll_next by its contract (frames unit: unknown frame types are skipped there and never reach this layer); handle_connection_error records the raised error in a ghost log (conn_error unit); BufRecvStream shim with prophetic buf_mut; retain shim (R11); transport traits weakest contracts; loops that end on Pending: partial correctness; poll_accept_recv needs rlimit 80.",
    "design_ref": "§4 C04",
    "trusted_base": COMMON_TB + ["inc/c04_conn.rs shims (BufRecvStream, FrameStream, transport, ConnectionInner ghost fields g_raised/g_uni/g_stops)", "callee contracts ASSUMED-FROM-UNIT (frames, buf, conn_error, client_goaway, kani C16)"],
    "assumptions": ["transport chunks are never empty", "liveness of the grease stream and termination of poll_next_varint's loop are not claimed"],
}

PROPS["C18"] = {
    "technique": "Kani full-domain harnesses on Datagram::{new,encode,decode} and impl Buf for EncodedDatagram against spec_varint_enc(S/4) ++ P",
    "text": "Complete proof by CBMC: for every S = 4k < 2^62 and every payload length and chunking (content-free mock payload, since the code never looks inside it) the encoded buffer exposes exactly varint(S/4) then the payload under any two advances and under chunk-wise draining; decode over all byte strings of length 0..9 (the varint is at most 8 bytes) is Ok iff the varint is complete and 4q <= 2^62-1, returns 4q and the rest, and otherwise the error whose code is H3_DATAGRAM_ERROR; no overflow, no panic.",
    "note": "Payload modelled as a content-free Buf of symbolic length <= usize::MAX-8; Kani/CBMC trusted; datagram handler plumbing beyond encode/decode is not under contract.",
    "design_ref": "§4 C18",
    "trusted_base": ["Kani 0.68 / CBMC 6.11; rustc", "kani/_spec.rs spec_datagram_hdr/dec, spec_varint_enc (RFC 9297 §2.1, RFC 9000 §16)"],
    "assumptions": ["payload length <= usize::MAX-8", "usize is 64 bits"],
}
PROPS["C19"] = {
    "technique": "Kani full-domain harnesses for the SessionId conversions and WebTransport stream headers; Verus contracts for the receive path (Frame::decode WT arm, FrameStream::into_inner, AcceptRecvStream::poll_type, poll_accept_recv gate)",
    "text": "SessionId::from(stream).into_inner() == stream id and the two conversions are inverse for every id < 2^62; the headers h3 writes are varint(0x41|0x54) ++ varint(session id) (Kani, complete). On receipt the WebTransport bidi header consumes exactly type + session id and hands on the id it read (unit frames), into_inner / split (BufRecvStream, FrameStream, connection::RequestStream) hand on the buffered bytes, the end-of-stream flag, the decoder memo and the owed DATA payload count unchanged, and every unframed reader of BufRecvStream — take_chunk, RecvStream::poll_data, futures AsyncRead::poll_read, tokio AsyncRead::poll_read — is under contract: what it hands out is exactly the next not-yet-consumed bytes of the transport stream, buffered bytes first, consumed once, end reported only with nothing buffered and the transport finished (unit frames, on top of unit buf: chunk independence); the uni header is type + id for every split (unit uni_streams) and WebTransport uni streams are queued iff enable_webtransport.",
    "note": "h3-webtransport's own forwarding impls (AsyncRead/AsyncWrite, accept_bi) are not under contract beyond the session_id line, which is the conversion proved here; WebTransportSession::accept is not extracted (its session id is `stream.send_id().into()`, read off the source).",
    "design_ref": "§4 C19",
    "trusted_base": COMMON_TB + ["kani/_spec.rs", "units frames, buf, uni_streams (their trusted bases)"],
    "assumptions": ["the session_id line of WebTransportSession::accept is `stream.send_id().into()` (checked by reading, not extracted)"],
}

PROPS["C12"] = {
    "technique": "Verus contracts on the extracted header validation / assembly / iteration functions with the http crate abstracted by assumed contracts",
    "text": "Unbounded deductive proof of h3's own logic relative to the http crate's contracts: Field::parse is Ok exactly when the name is a non-empty lowercase token (and not DQUOTE) with legal value bytes, or one of the six defined pseudo names whose value passes its parser; an accepted section contains only such fields; into_request_parts needs :method and a non-empty authority from :authority or the first Host line, equal when both are present; into_response_parts needs :status; on the sending side HeaderIter yields exactly the pseudo fields (each at most once, the caller's values) followed by the map entries in order.",
    "note": "RELATIVE TO the contracts in units/inc/http_shim.rs (HeaderName::from_lowercase, HeaderValue::from_bytes, Method/StatusCode/uri parsers, HeaderMap append/get/into_iter) — the documented contract of from_lowercase is false for the pinned http 1.5.0 (it accepts 0x22), the shim states the true one. RFC 9114 §4.3 rules that the property statement does not list (duplicate / misplaced / wrong-kind pseudo-header fields, mandatory :scheme/:path, a second differing Host line) are NOT obligations of this check; they are recorded as observations in DESIGN §4 C12. The call sites' mapping to H3_MESSAGE_ERROR is in unit error_scope.",
    "design_ref": "§4 C12",
    "trusted_base": COMMON_TB + ["units/inc/http_shim.rs: assumed contracts of http 1.5.0 and a few std items", "axiom_pseudo_literals (checked by rustc through a const assertion)"],
    "assumptions": ["the http crate behaves as the shim says", "HeaderIter::next: partial correctness"],
}

PROPS["C15"] = {
    "technique": "Kani full-domain harnesses for prefixed integers, bit kernels, the per-symbol Huffman step and the end-of-input rule against RFC 7541 oracles; Verus for the encoder loops and the string-level induction lemma",
    "text": "Complete proofs by CBMC (bounds are the code's own: 10 continuation octets, 14-deep table recursion, unwinding assertions on): prefix_int::decode equals the RFC 7541 §5.1 reading on all byte strings and all prefix sizes (exact value, exact consumption, truncation and overflow reported, never a wrapped value), encode equals the RFC octets, round trip for all u64; read_bits/write_bits/BitWindow kernels; DecodeIter::next returns symbol c and advances by len(c) iff the window starts with the canonical code of c (derived from the RFC 7541 App. B lengths), all 256 encoder table entries equal that code. Verus: ensure_free_space/put/hpack_encode append exactly the codes with an all-ones tail, and lemma_huff_string lifts the per-symbol facts to strings of every length (round trip; accepted iff codes ++ ones(p), p < 8). KNOWN FINDINGS: the decoder accepts >= 8 bits of all-ones padding and a complete EOS (thorough-tier harnesses; not repairable without editing the repository's tests).",
    "note": "SPEC_HUFF_LEN transcribed from memory of RFC 7541 App. B (checked: per-length counts, Kraft sum, EOS, prefix-freeness, 8 RFC App. C vectors; for symbols >= 128 not independent of the repository beyond those checks); the link between the Kani-proved executable step and the Verus lemma's abstract hcode is the shared definition (axiom_hcode), not one prover's proof; the decoder driver loop and the two collect() lines of prefix_string are glue read off the code; inputs < 2^28 bytes (u32 bit positions).",
    "design_ref": "§4 C15",
    "trusted_base": ["Kani 0.68 / CBMC 6.11; Verus 0.2026.09.13; rustc", "kani/_spec.rs SPEC_HUFF_LEN and canonical derivation, spec_prefix_int_*", "units/inc/huffman_spec.rs axiom_hcode", "tools/vp-extract (R26)"],
    "assumptions": ["string literals shorter than 2^28 bytes", "decoder driver / collect() glue (not under contract)"],
}

PROPS["C03"] = {
    "technique": "Verus step contracts on the extracted request-stream receive functions over the FrameStream contracts (unit frames) and its ghost log of frames handed out",
    "text": "Unbounded deductive proof of step contracts from arbitrary well-formed pre-states under the documented call pattern: poll_recv_data hands out exactly the last bytes it consumed, inside a DATA payload, and lowers the payload counter by that much (with unit frames: every payload byte once, in order, never beyond the declared length, independent of chunking); of the frames taken in a call all but the last are empty DATA frames, a HEADERS frame ends the body and is kept as the trailer section, every other frame that reaches this layer is the connection error H3_FRAME_UNEXPECTED; end-of-body only at a clean end of the stream or at the trailers — never at an empty DATA frame; poll_recv_trailers: the first frame must be HEADERS, any frame after the trailer section is H3_FRAME_UNEXPECTED, a message is delivered only when the stream ended right after it, a pending wait keeps the section. First-frame rules on the same bodies in the same unit: server accept_with_frame — a known non-HEADERS first frame ⇒ exactly the escalation with H3_FRAME_UNEXPECTED, FIN first ⇒ stream error H3_REQUEST_INCOMPLETE and no connection error, success only for HEADERS, the handle reads on from the same frame stream; client recv_response — the first frame taken must be HEADERS, anything else ⇒ H3_FRAME_UNEXPECTED (their scoping clauses are in unit error_scope). Unknown frames never reach this layer and HTTP/2-reserved types arrive as ForbiddenFrame ⇒ H3_FRAME_UNEXPECTED (unit frames, [C02.stream.h2]).",
    "note": "FrameStream/BufList contracts are included in assume mode from the same text unit frames/buf verify; escalation modelled as escalated(code) (the connection's single outcome, C05); qpack/header callees by deterministic outcome functions; history-level language lemma (U* H U* (D U*)* (H U*)? FIN) is read off the step contracts, not mechanised.",
    "design_ref": "§4 C03",
    "trusted_base": COMMON_TB + ["unit frames / buf contracts (assumed here, proved there)", "error helper contracts ASSUMED-FROM-UNIT error_scope", "documented call pattern as precondition (recv_data until None, then recv_trailers)"],
    "assumptions": ["application follows the documented call pattern", "transport chunks are never empty"],
}
PROPS["C06"] = {
    "aggregate": True,
    "technique": "Union of the panic / overflow / index / unwrap / assert! obligations Verus generates for every function under contract in all units, plus Kani totality harnesses on the leaf decoders; 'no Pending after the peer is done' as postconditions",
    "text": "Every extracted function is verified with Verus' default obligations on: arithmetic overflow, slice/VecDeque indexing, unwrap/expect, assert!/unreachable! are proof obligations, so a new reachable panic in any function under contract fails its unit and is attributed here. The leaf decoders (VarInt, prefix_int, Huffman step, HeaderBlockField, Datagram::decode, SessionId::decode) are proved panic-free over full symbolic inputs by Kani. Completion: every poll function under contract ensures that it does not answer Pending once the transport has signalled the end (old eos ⇒ not Pending) and that every Pending answer follows a Pending answer of the transport in the same call (a waker is registered). PARTIAL: that the executor re-polls (fairness) and functions not under contract are outside the claim.",
    "note": "Functions not under contract: tests, examples, h3-webtransport forwarding impls, h3-datagram handler plumbing, tracing, Debug/Display, builders' async setup beyond what C13's harnesses cover. Loops that end on Pending are proved for partial correctness. Preconditions from the documented call pattern (C03) exclude application misuse.",
    "design_ref": "§4 C06, §6",
    "trusted_base": COMMON_TB + ["the trusted bases of every unit it aggregates"],
    "assumptions": ["fairness: a registered waker leads to a re-poll", "inputs below the stated size bounds (2^50 / 2^28 bytes)", "transport chunks are never empty"],
}
PROPS["C14"] = {
    "technique": "Kani full-domain harnesses for every byte h3 encodes (frame headers, stream headers, grease, WriteBuf as a Buf under any advance pattern); Verus for the adapter write loop and the send sites' ghost logs",
    "text": "Complete proofs by CBMC: each From impl of WriteBuf produces exactly varint(type) ++ varint(length) ++ … with the length field equal to the payload's remaining(), every frame constructor the API can send, stream type headers 0/2/3/0x41/0x54 and grease, all reserved identifiers of the 0x1f*N+0x21 form below 2^62, never an HTTP/2-reserved frame type or setting id; impl Buf for WriteBuf exposes header bytes then payload, nothing skipped or repeated, under any two advances and chunk-wise draining; the 64-byte buffer never overflows (SETTINGS worst case in C13's harness). Partial acceptance by the transport: the Quinn adapter's write loop conserves and completes the buffer for every sequence of accepted counts (unit quinn_adapter). Stream-level sequencing is covered where units state it: at most one HEADERS frame per send call and only within the peer's limit (unit size_limit_sites), GOAWAY frames with non-increasing ids only (unit server_accept). NOT a single history-level proof of 'control stream = SETTINGS first, then only allowed frames': the set of writers of the control stream is read off the code.",
    "note": "Content-free mock payload Buf of symbolic length; fastrand stubbed to any value in range; four harnesses holding a real Bytes are bounded stand-ins (HEADERS / PUSH_PROMISE payload <= 16400 or 80 bytes) and not counted as proved; PushPromise is never constructed for sending.",
    "design_ref": "§4 C14",
    "trusted_base": ["Kani 0.68 / CBMC 6.11; rustc", "kani/_spec.rs spec_frame_hdr, spec_is_grease, spec_varint_enc", "fastrand stub", "units quinn_adapter, size_limit_sites, server_accept (their trusted bases)"],
    "assumptions": ["payload remaining() < 2^62", "writers of the control stream are ConnectionInner::new / send_control_stream_headers / shutdown (read off the code)"],
}

PROPS["C01"] = {
    "compose": ["C02", "C03", "C10", "C11", "C12", "C14", "C17"],
    "technique": "Composition: the sender-side contracts (C14 Kani byte images, C11 encode, C12 iteration) and the receiver-side contracts (C02 frame layer, C03 request stream, C11 decode, C12 parse) are both stated against the same spec functions; Verus lemmas (unit e2e) show the two frame-level halves are inverse on the wire format",
    "text": "No separate code contracts. Mechanised: (1) every unit of C02/C03/C10-C12 that carries C01 in its props (buf, frames, request_stream, qpack_stateless, headers) — chunk independence comes from verifying the frame layer against the Buf contract only, partial-write independence from the adapter's write loop (C17) and WriteBuf as a Buf (C14); (2) unit e2e: varint round trip (venc/vdec, tied to the Kani oracle by c16_spec_renderings_agree), and for the sender's bytes varint(type) ++ varint(|p|) ++ p followed by anything, the receiver's predicates (skip_unknown / decoded_as / frame_len) single out exactly HEADERS with the same section, DATA with exactly the payload length followed by the payload, and skip interleaved reserved-type frames in full; (3) QPACK: [C11.enc] and [C11.dec] are both relative to spec_field_section, so decode(encode(fields)) == fields in order; headers: [C12.order.exact] with [C12.parse.exact]/[C12.fields.assembled]. ARGUED, not mechanised: the message-level induction over DATA frames and the final 'exactly one clean end' (read off [C02.eos.clean], [C03.eob.cause], [C03.trailers.end]); independence from task interleaving rests on ownership (C07).",
    "note": "Relative to the http contracts of C12 (per-name order through HeaderMap), the Huffman string codec contract (C15) and the callee contracts each unit assumes; body length bound none (< 2^62).",
    "design_ref": "§4 C01",
    "trusted_base": COMMON_TB + ["the trusted bases of C02, C03, C10, C11, C12, C14, C15, C17", "kani/_spec.rs = units/inc/vdec.rs, venc.rs (tied by c16_spec_renderings_agree)"],
    "assumptions": ["message-level induction and the single clean end are read off the step contracts", "task interleavings: ownership argument of C07"],
}

NOT_YET = "unit not built yet in this round (see DESIGN §8 order of work)"
for _id in ["C01", "C02", "C03", "C04", "C05", "C06", "C07", "C08", "C09", "C10", "C11", "C12", "C13", "C14", "C15", "C17", "C18", "C19"]:
    PROPS.setdefault(_id, {"not_applicable": NOT_YET})
PROPS["C20"] = {"not_applicable": "two-party, whole-history agreement over HashMap/BTreeMap/VecDeque-iterator state that neither Verus (no specs for entry API / split_off / iterator adapters) nor Kani (symbolic RandomState maps do not terminate) can take verbatim; constructors taking a table exist only under cfg(test); a bounded scenario harness would be exploration, a different family (DESIGN §6)"}
