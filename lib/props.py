"""Per-property registry: what is claimed, the level text, trusted base.  MANIFEST.json is generated
from this file by `./check --manifest` so the two cannot drift."""

COMMON_TB = [
    "Verus 0.2026.09.13 + its Z3; Kani 0.68 / CBMC 6.11; rustc",
    "tools/vp-extract (syn parser + text edits, rewrite rules R0-R22 of DESIGN §3.2; every application counted in evidence)",
]

PROPS = {
    "C16": {
        "technique": "Kani function contracts / full-domain loop-free harnesses against RFC 9000 spec functions",
        "text": "Complete (unbounded-domain) proof by CBMC: every harness ranges over the full input domain (all u64, all 9-byte windows with every length, all usize increments); the decode loop is bounded by the code's own 8-byte maximum and unwinding assertions are on, so no input-length bound is introduced.",
        "note": "Trusts Kani/CBMC, rustc; bytes' impl of Buf for &[u8] and BufMut for &mut [u8] are compiled in and symbolically executed, not assumed. The executable spec (kani/_spec.rs) is the RFC 9000 oracle.",
        "design_ref": "§4 C16",
        "trusted_base": ["Kani 0.68 / CBMC 6.11 / CaDiCaL; rustc", "kani/_spec.rs: spec_varint_enc/dec, stream-id algebra transcribed from RFC 9000 §16, §2.1"],
        "assumptions": ["usize is 64 bits (x86_64 target)"],
    },
}

NOT_YET = "unit not built yet in this round (see DESIGN §8 order of work)"
for _id in ["C01", "C02", "C03", "C04", "C05", "C06", "C07", "C08", "C09", "C10", "C11", "C12", "C13", "C14", "C15", "C17", "C18", "C19"]:
    PROPS.setdefault(_id, {"not_applicable": NOT_YET})
PROPS["C20"] = {"not_applicable": "two-party, whole-history agreement over HashMap/BTreeMap/VecDeque-iterator state that neither Verus (no specs for entry API / split_off / iterator adapters) nor Kani (symbolic RandomState maps do not terminate) can take verbatim; constructors taking a table exist only under cfg(test); a bounded scenario harness would be exploration, a different family (DESIGN §6)"}
