"""Core of the /verif machinery: Verus units (extract + verify + classify), Kani harness runs,
evidence and exit codes.  See DESIGN.md §3."""
import hashlib
import json
import os
import re
import shutil
import subprocess
import sys
import tempfile
import time

VERIF = os.path.dirname(os.path.dirname(os.path.abspath(__file__)))
REPO = os.environ.get("VP_REPO", "/repo")
EXTRACT = os.path.join(VERIF, "tools/vp-extract/target/release/vp-extract")
UNITS = os.path.join(VERIF, "units")
KANI_DIR = os.path.join(VERIF, "kani")
CACHE = os.path.join(VERIF, ".cache")
KANI_TARGET = os.environ.get("VP_KANI_TARGET", os.path.join(CACHE, "kani-target"))
TAG_RE = re.compile(r"\[(C\d\d(?:\.[A-Za-z0-9_\-]+)+)\]")

ASSUME_PATTERNS = {
    "external_body": re.compile(r"verifier::external_body"),
    "assume_specification": re.compile(r"\bassume_specification\b"),
    "external_type_specification": re.compile(r"external_type_specification"),
    "external_trait_specification": re.compile(r"external_trait_specification"),
    "admit": re.compile(r"\badmit\s*\(\s*\)"),
    "assume": re.compile(r"\bassume\s*\("),
    "uninterp": re.compile(r"\buninterp\s+spec\b"),
    "exec_allows_no_decreases_clause": re.compile(r"exec_allows_no_decreases_clause"),
}


def sh(cmd, **kw):
    return subprocess.run(cmd, stdout=subprocess.PIPE, stderr=subprocess.PIPE, text=True, **kw)


def ensure_extractor():
    if not os.path.exists(EXTRACT):
        r = sh(["cargo", "build", "--release", "--offline"], cwd=os.path.join(VERIF, "tools/vp-extract"),
               env=dict(os.environ, CARGO_NET_OFFLINE="true"))
        if r.returncode != 0:
            raise RuntimeError("cannot build vp-extract:\n" + r.stderr[-3000:])


def strip_comments_keep_lines(text):
    """remove // comments (not inside strings, roughly) for the assumption scan"""
    out = []
    for line in text.split("\n"):
        i = line.find("//")
        out.append(line if i < 0 else line[:i])
    return "\n".join(out)


class VerusResult:
    def __init__(self, unit):
        self.unit = unit
        self.status = "undecided"      # ok | failed | undecided
        self.reason = ""
        self.functions = []            # [{name, mode, success, time_us}]
        self.failures = []             # [{message, tags, function, src, gen_line, text, label}]
        self.items = []                # meta items from the extractor
        self.rules = {}
        self.assumed = {}
        self.solver_ms = 0
        self.wall_s = 0.0
        self.verified = 0
        self.errors = 0
        self.raw = ""
        self.gen_path = None
        self.tags_present = []
        self.lost_hints = {}


def run_verus_unit(unit, keep_dir=None, extra_args=None, rlimit=None, mutate=None, canary=None):
    """Extract unit `unit` (units/<unit>.rs.in) from REPO's working tree and verify it."""
    ensure_extractor()
    res = VerusResult(unit)
    t0 = time.time()
    tmpl = os.path.join(UNITS, unit + ".rs.in")
    tmp = keep_dir or tempfile.mkdtemp(prefix="vp-verus-")
    os.makedirs(tmp, exist_ok=True)
    try:
        gen = os.path.join(tmp, unit.replace("/", "_") + ".rs")
        meta = os.path.join(tmp, unit.replace("/", "_") + ".meta.json")
        if canary is None:
            canary = bool(os.environ.get("VP_CANARY"))
        xenv = dict(os.environ)
        xenv.pop("VP_CANARY", None)
        if canary:
            xenv["VP_CANARY"] = "1"
        r = sh([EXTRACT, tmpl, REPO, gen, meta], env=xenv)
        if r.returncode != 0:
            res.status = "undecided"
            m = re.search(r"VP-EXTRACT-ERROR: (.*)", r.stdout + r.stderr, re.S)
            res.reason = "extract: " + (m.group(1)[:1500] if m else (r.stdout + r.stderr)[-1500:])
            return res
        res.gen_path = gen
        text = open(gen).read()
        if mutate:
            text = mutate(text)
            open(gen, "w").write(text)
        res.items = json.load(open(meta))["items"]
        for it in res.items:
            for k, v in it["rules"].items():
                res.rules[k] = res.rules.get(k, 0) + v
            it["sha256"] = hashlib.sha256(it["src_text"].encode()).hexdigest()[:16]
        nocomm = strip_comments_keep_lines(text)
        res.assumed = {k: len(p.findall(nocomm)) for k, p in ASSUME_PATTERNS.items()}
        lines = text.split("\n")
        res.tags_present = sorted(set(TAG_RE.findall(text)))
        # canary runs need only the first error of each function (everything after `assert(false)` is vacuous)
        cmd = ["verus", gen, "--output-json", "--time", "--multiple-errors", "0" if canary else "8"]
        if rlimit:
            cmd += ["--rlimit", str(rlimit)]
        if extra_args:
            cmd += extra_args
        cmd += ["--", "--error-format=json"]
        r = sh(cmd, cwd=tmp)
        res.raw = r.stderr[-20000:]
        try:
            j = json.loads(r.stdout)
        except Exception:
            res.reason = "verus produced no JSON: " + (r.stderr[-1500:] or r.stdout[-500:])
            return res
        vr = j.get("verification-results", {})
        res.verified = vr.get("verified", 0)
        res.errors = vr.get("errors", 0)
        tm = j.get("times-ms", {})
        try:
            res.solver_ms = tm["smt"]["smt-run"]
            for m in tm["smt"]["smt-run-module-times"]:
                for f in m.get("function-breakdown", []):
                    res.functions.append({"name": f["function"].split("::", 1)[-1], "mode": f.get("mode:", ""),
                                          "success": f["success"], "time_us": f.get("time-micros", 0)})
        except Exception:
            pass
        diags = []
        for ln in r.stderr.split("\n"):
            ln = ln.strip()
            if ln.startswith("{"):
                try:
                    d = json.loads(ln)
                except Exception:
                    continue
                if d.get("level") == "error" and not d["message"].startswith("aborting due to"):
                    diags.append(d)
        hard = []
        for d in diags:
            msg = d["message"]
            code = d.get("code")
            spans = d.get("spans", [])
            if code or vr.get("encountered-vir-error") or not spans:
                hard.append(msg)
                continue
            low = msg.lower()
            if "rlimit" in low or "resource limit" in low or "timed out" in low or "not yet support" in low or "unsupported" in low:
                hard.append(msg)
                continue
            tags = []
            fn = None
            src = None
            gl = None
            label = ""
            txt = ""
            for sp in sorted(spans, key=lambda s: not s.get("is_primary")):
                for L in range(sp["line_start"], sp["line_end"] + 1):
                    if 1 <= L <= len(lines):
                        tags += TAG_RE.findall(lines[L - 1])
                        # tag may sit on a preceding comment-only line
                        k = L - 2
                        while k >= 0 and lines[k].strip().startswith("//") and not lines[k].strip().startswith("// ----"):
                            tags += TAG_RE.findall(lines[k])
                            k -= 1
                for it in res.items:
                    a, b = it["gen_lines"]
                    if a <= sp["line_start"] <= b and it["kind"] == "fn":
                        if fn is None or sp.get("is_primary"):
                            if fn is None:
                                fn = it
                                gl = sp["line_start"]
                                txt = (sp.get("text") or [{}])[0].get("text", "").strip()
                                label = sp.get("label") or ""
                # failing *site* (exit / call) is the non-clause span inside an extracted fn
            # prefer, as the site, a span whose label says where it failed
            for sp in spans:
                lab = (sp.get("label") or "")
                if "at the end of the function body" in lab or "at this exit" in lab or "failed precondition" in lab.lower():
                    pass
            site = None
            def in_fn(sp):
                for it in res.items:
                    a, b = it["gen_lines"]
                    if a <= sp["line_start"] <= b and it["kind"] == "fn":
                        return it
                return None
            cands = []
            for sp in spans:
                it = in_fn(sp)
                if not it:
                    continue
                lab = (sp.get("label") or "")
                t = (sp.get("text") or [{}])[0].get("text", "").strip()
                if "at this exit" in lab or "at the end of the function body" in lab:
                    pr = 0
                elif "failed this postcondition" in lab or "failed precondition" in lab or "failed this" in lab:
                    pr = 3
                elif sp.get("is_primary"):
                    pr = 1
                else:
                    pr = 2
                cands.append((pr, {"fn": it["name"], "text": t, "gen_line": sp["line_start"]}))
            if cands:
                cands.sort(key=lambda c: c[0])
                site = cands[0][1]
            res.failures.append({
                "message": msg, "tags": sorted(set(tags)),
                "function": fn["name"] if fn else None,
                "fn_tags": fn["tags"] if fn else [],
                "src": "%s:%d-%d" % (fn["file"], fn["src_lines"][0], fn["src_lines"][1]) if fn else None,
                "gen_line": gl, "text": txt, "label": label, "site": site,
                "rendered": d.get("rendered", "")[:3000],
            })
        only_rlimit = hard and all(("rlimit" in h.lower() or "resource limit" in h.lower()) for h in hard)
        if hard and only_rlimit and not rlimit and not res.failures:
            # the solver gave up without naming an obligation: one retry with 8x the resource limit
            res2 = run_verus_unit(unit, keep_dir=keep_dir, extra_args=extra_args, rlimit=80, mutate=mutate, canary=canary)
            res2.reason = (res2.reason + " (after retry with --rlimit 80)").strip() if res2.status == "undecided" else res2.reason
            return res2
        lost = {it["name"]: it.get("lost_hints") for it in res.items if it.get("lost_hints")}
        res.lost_hints = lost
        if lost and any(f["function"] in lost for f in res.failures):
            # a proof hint lost its anchor and the function no longer verifies: undecided, never an alarm
            hard.append("proof hint anchor lost in %s and the proof fails without it: %s" % (
                sorted(set(f["function"] for f in res.failures if f["function"] in lost)), lost))
            res.failures = [f for f in res.failures if f["function"] not in lost]
            only_rlimit = False
        frontend = [h for h in hard if not ("rlimit" in h.lower() or "resource limit" in h.lower() or h.startswith("proof hint anchor lost"))]
        if hard and (frontend or not res.failures):
            # the verifier's front end rejected the unit, or nothing attributable failed: undecided
            res.status = "undecided"
            res.reason = "verifier could not decide: " + " | ".join(hard)[:2000]
        elif res.failures or res.errors:
            if hard:
                res.reason = "(also undecided parts: %s)" % " | ".join(hard)[:600]
            res.status = "failed"
            if not res.failures:
                res.status = "undecided"
                res.reason = "errors reported but none attributable: " + r.stderr[-1500:]
        elif vr.get("success") and res.verified > 0:
            res.status = "ok"
        else:
            res.reason = "no functions verified (vacuous) or verus failed: " + r.stderr[-1500:]
        return res
    finally:
        res.wall_s = time.time() - t0
        if not keep_dir:
            shutil.rmtree(tmp, ignore_errors=True)


# ------------------------------------------------------------------------------------------ Kani

HARNESS_RE = re.compile(r"((?:[ \t]*//\s*vp:.*\n)+)(?:[ \t]*(?://[^\n]*|#\[[^\n]*\])[ \t]*\n)*[ \t]*(?:pub\s+)?fn\s+(\w+)")


def kani_harness_index():
    """scan /verif/kani/**.rs for harnesses and their `// vp:` metadata lines"""
    idx = {}
    for root, _, files in os.walk(KANI_DIR):
        for f in files:
            if not f.endswith(".rs"):
                continue
            p = os.path.join(root, f)
            rel = os.path.relpath(p, KANI_DIR)
            text = open(p).read()
            for m in HARNESS_RE.finditer(text):
                meta = {}
                for ln in m.group(1).strip().split("\n"):
                    ln = ln.strip()[2:].strip()
                    if ln.startswith("vp:"):
                        for kv in ln[3:].split(";"):
                            if "=" in kv:
                                k, v = kv.split("=", 1)
                                meta[k.strip()] = v.strip()
                meta["file"] = rel
                meta["name"] = m.group(2)
                idx[m.group(2)] = meta
    return idx


def harness_target(rel):
    """kani/<path>/<src>.rs and kani/<path>/<src>__<suffix>.rs both attach to <path>/<src>.rs"""
    d, f = os.path.split(rel)
    base = f[:-3]
    if "__" in base:
        src, suffix = base.split("__", 1)
        return os.path.join(d, src + ".rs"), "__vp_kani_" + re.sub(r"\W", "_", suffix)
    return rel, "__vp_kani"


def crate_of(rel):
    return rel.split("/")[0]


class KaniResult:
    def __init__(self):
        self.status = "undecided"
        self.reason = ""
        self.harnesses = {}   # name -> {status, time_s, checks, failed_checks, covers_ok, covers_total}
        self.wall_s = 0
        self.raw_tail = ""
        self.playbacks = {}


def prepare_kani_copy(dest):
    """rsync REPO working tree and attach harness modules (DESIGN §3.5)"""
    os.makedirs(dest, exist_ok=True)
    r = sh(["rsync", "-a", "--delete", "--exclude", "target", "--exclude", ".git", "--exclude", "fuzz", REPO + "/", dest + "/"])
    if r.returncode != 0:
        raise RuntimeError("rsync failed: " + r.stderr)
    os.makedirs(os.path.join(dest, ".cargo"), exist_ok=True)
    with open(os.path.join(dest, ".cargo/config.toml"), "a") as f:
        f.write("\n[net]\noffline = true\n")
    attached = []
    for root, _, files in os.walk(KANI_DIR):
        for fn in files:
            if not fn.endswith(".rs"):
                continue
            p = os.path.join(root, fn)
            rel = os.path.relpath(p, KANI_DIR)
            if rel.startswith("_"):
                continue
            srcrel, modname = harness_target(rel)
            tgt = os.path.join(dest, srcrel)
            if not os.path.exists(tgt):
                raise FileNotFoundError("anchor lost: %s has no counterpart in the repository" % rel)
            with open(tgt, "a") as f:
                f.write('\n#[cfg(kani)]\n#[path = "%s"]\nmod %s;\n' % (p, modname))
            attached.append(rel)
    return attached


def run_kani(harness_names, timeout_s=1500, jobs=None, playback=False, extra_unwind=None):
    res = KaniResult()
    t0 = time.time()
    idx = kani_harness_index()
    missing = [h for h in harness_names if h not in idx]
    if missing:
        res.reason = "harness not found: %s" % missing
        return res
    by_crate = {}
    for h in harness_names:
        by_crate.setdefault(crate_of(idx[h]["file"]), []).append(h)
    tmp = tempfile.mkdtemp(prefix="vp-kani-")
    try:
        try:
            prepare_kani_copy(tmp)
        except FileNotFoundError as e:
            res.reason = str(e)
            return res
        os.makedirs(CACHE, exist_ok=True)
        # one Kani build at a time per target directory: concurrent `./check` runs (other properties, other trees via
        # VP_REPO) share the dependency cache, and two cargo-kani sessions in one target directory lose each other's output
        import fcntl
        lockf = open(KANI_TARGET + ".lock", "w")
        fcntl.flock(lockf, fcntl.LOCK_EX)
        for crate, hs in by_crate.items():
            cmd = ["cargo", "kani", "-p", crate, "-Z", "function-contracts", "-Z", "stubbing",
                   "--output-format", "terse", "-j", str(1 if playback else (jobs or min(16, max(1, len(hs))))),
                   "--target-dir", KANI_TARGET]
            if playback:
                cmd += ["-Z", "concrete-playback", "--concrete-playback=print"]
            for h in hs:
                cmd += ["--harness", h]
            env = dict(os.environ, CARGO_NET_OFFLINE="true")
            try:
                r = subprocess.run(cmd, cwd=tmp, env=env, stdout=subprocess.PIPE, stderr=subprocess.STDOUT, text=True, timeout=timeout_s)
                out = r.stdout
            except subprocess.TimeoutExpired as e:
                out = (e.stdout or b"").decode() if isinstance(e.stdout, bytes) else (e.stdout or "")
                out += "\nVP-TIMEOUT\n"
            res.raw_tail += out[-6000:]
            parse_kani_output(out, hs, res)
            failed = [h for h in hs if res.harnesses.get(h, {}).get("status") == "failed"]
            if failed and not playback:
                # second pass, sequential, to obtain concrete counterexamples (incompatible with -j > 1)
                cmd2 = ["cargo", "kani", "-p", crate, "-Z", "function-contracts", "-Z", "stubbing",
                        "--output-format", "terse", "--target-dir", KANI_TARGET,
                        "-Z", "concrete-playback", "--concrete-playback=print"]
                for h in failed[:6]:
                    cmd2 += ["--harness", h]
                try:
                    r2 = subprocess.run(cmd2, cwd=tmp, env=env, stdout=subprocess.PIPE, stderr=subprocess.STDOUT, text=True, timeout=timeout_s)
                    tmpres = KaniResult()
                    parse_kani_output(r2.stdout, failed, tmpres)
                    for h in failed:
                        pb = tmpres.harnesses.get(h, {}).get("playback")
                        if pb:
                            res.harnesses[h]["playback"] = pb
                    replay_playbacks(tmp, crate, idx, res, failed, env)
                except subprocess.TimeoutExpired:
                    pass
        sts = [res.harnesses.get(h, {}).get("status") for h in harness_names]
        if all(s == "ok" for s in sts):
            res.status = "ok"
        elif any(s == "failed" for s in sts):
            res.status = "failed"
        else:
            res.status = "undecided"
            res.reason = "harnesses without a verdict: %s" % [h for h, s in zip(harness_names, sts) if s not in ("ok", "failed")]
        return res
    finally:
        res.wall_s = time.time() - t0
        shutil.rmtree(tmp, ignore_errors=True)


def replay_playbacks(tmp, crate, idx, res, failed, env):
    """Execute Kani's concrete counterexamples natively against the real code (`cargo kani playback`)."""
    byfile = {}
    for h in failed:
        pb = res.harnesses.get(h, {}).get("playback")
        if pb:
            byfile.setdefault(idx[h]["file"], []).append((h, pb))
    if not byfile:
        return
    for rel, lst in byfile.items():
        src = os.path.join(KANI_DIR, rel)
        rel = harness_target(rel)[0]
        aug = os.path.join(tmp, "__vp_playback_" + os.path.basename(src))
        with open(aug, "w") as f:
            f.write(open(src).read())
            for _, pb in lst:
                f.write("\n" + pb + "\n")
        tgt = os.path.join(tmp, rel)
        t = open(tgt).read().replace('#[path = "%s"]' % src, '#[path = "%s"]' % aug)
        open(tgt, "w").write(t)
    env2 = dict(env, CARGO_TARGET_DIR=KANI_TARGET + "-playback")
    try:
        r = subprocess.run(["cargo", "kani", "playback", "-Z", "concrete-playback", "-p", crate, "--", "kani_concrete_playback"],
                           cwd=tmp, env=env2, stdout=subprocess.PIPE, stderr=subprocess.STDOUT, text=True, timeout=900)
        out = r.stdout
    except subprocess.TimeoutExpired:
        return
    for h in failed:
        m = re.search(r"test \S*kani_concrete_playback_%s_\d+ \.\.\. (\w+)" % re.escape(h), out)
        if m:
            res.harnesses[h]["playback_native"] = m.group(1)   # FAILED = the real code fails on this input
            pm = re.search(r"---- \S*kani_concrete_playback_%s_\d+ stdout ----\n(.*?)\n(?:stack backtrace|note:)" % re.escape(h), out, re.S)
            if pm:
                res.harnesses[h]["playback_panic"] = pm.group(1).strip()[:600]


def parse_kani_output(out, hs, res):
    # works for sequential output ("Checking harness X...") and for -j N ("Thread k: Checking harness X...",
    # then "Thread k: " followed by that harness' result block)
    cur = {}      # thread -> harness
    blocks = {}   # harness -> text
    active = None
    for line in out.split("\n"):
        m = re.match(r"^(?:Thread (\d+): )?Checking harness (\S+?)\.\.\.\s*$", line)
        if m:
            th = m.group(1) or "-"
            name = m.group(2)
            h = None
            for cand in hs:
                if name == cand or name.endswith("::" + cand):
                    h = cand
            cur[th] = h
            active = h if th == "-" else None
            if h:
                blocks.setdefault(h, "")
            continue
        m = re.match(r"^Thread (\d+):\s*$", line)
        if m:
            active = cur.get(m.group(1))
            continue
        if line.startswith("Manual Harness Summary") or line.startswith("Complete - "):
            active = None
            continue
        if active:
            blocks[active] = blocks.get(active, "") + line + "\n"
    for h, part in blocks.items():
        info = {"status": "undecided", "time_s": None, "failed_checks": [], "covers_ok": 0, "covers_total": 0, "checks": 0}
        m = re.search(r"Verification Time: ([0-9.]+)s", part)
        if m:
            info["time_s"] = float(m.group(1))
        m = re.search(r"\*\* (\d+) of (\d+) cover properties satisfied", part)
        if m:
            info["covers_ok"], info["covers_total"] = int(m.group(1)), int(m.group(2))
        m = re.search(r"\*\* (\d+) of (\d+) failed", part)
        if m:
            info["checks"] = int(m.group(2))
        for fm in re.finditer(r"Failed Checks: (.*)\n\s*File: \"([^\"]*)\", line (\d+), in (\S+)", part):
            info["failed_checks"].append({"desc": fm.group(1).strip(), "file": fm.group(2), "line": int(fm.group(3)), "in": fm.group(4)})
        if "VERIFICATION:- SUCCESSFUL" in part:
            info["status"] = "ok"
            if info["covers_total"] and info["covers_ok"] < info["covers_total"]:
                info["status"] = "vacuous"
        elif "VERIFICATION:- FAILED" in part:
            descs = [f["desc"] for f in info["failed_checks"]]
            if descs and all(("unwinding assertion" in d or "is not currently supported" in d or "recursion unwinding" in d) for d in descs):
                info["status"] = "undecided"
                info["reason"] = "; ".join(descs)[:300]
            else:
                info["status"] = "failed"
        pb = re.search(r"Concrete playback unit test for `[^`]*`:\s*```\s*(.*?)```", part, re.S)
        if pb:
            info["playback"] = pb.group(1)
        res.harnesses[h] = info
    if "VP-TIMEOUT" in out:
        for h in hs:
            res.harnesses.setdefault(h, {"status": "undecided", "reason": "timeout", "failed_checks": [], "covers_ok": 0, "covers_total": 0})
    if "error: could not compile" in out or "error[E" in out:
        for h in hs:
            res.harnesses.setdefault(h, {"status": "undecided", "reason": "compile error", "failed_checks": [], "covers_ok": 0, "covers_total": 0})
        m = re.search(r"(error(\[E\d+\])?:.*?)(\n\n|\Z)", out, re.S)
        res.reason = "kani build failed: " + (m.group(1)[:1500] if m else "")
