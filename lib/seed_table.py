#!/usr/bin/env python3
"""regenerates the seeded-change table between the SEED-TABLE markers of DESIGN.md from seeded/*/meta.json"""
import json, glob, os, re
V = os.path.dirname(os.path.dirname(os.path.abspath(__file__)))
rows = []
for f in sorted(glob.glob(os.path.join(V, "seeded", "*", "meta.json"))):
    m = json.load(open(f))
    sid = m["id"]
    if m.get("obsolete"):
        rows.append("| %s | (obsolete) %s | - | not counted |" % (sid, m["obsolete"][:160].replace("|", "/")))
        continue
    conf = {True: "yes", False: "NO", None: "?"}[m.get("confirmed")]
    det = []
    for p, c in (m.get("checks") or {}).items():
        if c.get("exit") == 1:
            det.append("`./check %s` → VIOLATION: %s" % (p, "; ".join(c.get("obligations", [])[:2]) or "(see replay)"))
        elif c.get("exit") == 2:
            det.append("`./check %s` undecided: %s" % (p, (c.get("undecided") or [""])[0][:90]))
        else:
            det.append("`./check %s` passes (missed)" % p)
    what = (m.get("summary") or "").strip()
    if not what:
        # first heading line of the seeding agent's notes, without its numbering
        n = (m.get("needs_to_manifest", "") or "").strip().split("\n")[0]
        n = re.sub(r"^#+\s*", "", n)
        n = re.sub(r"^(C\d\d\s*/?\s*)?(seeded change|change|seed)\s*\d+\s*(\(C\d\d\))?\s*[—:-]\s*", "", n, flags=re.I)
        what = n[:200]
    rows.append("| %s | %s | %s | %s |" % (sid, what.replace("|", "/"), conf, "<br>".join(det) or "not run yet"))
table = "| id | change (from the seeding agent's notes) | confirmed | verdict of the checks |\n|---|---|---|---|\n" + "\n".join(rows)
p = os.path.join(V, "DESIGN.md")
s = open(p).read()
s = re.sub(r"<!-- SEED-TABLE-BEGIN -->.*<!-- SEED-TABLE-END -->", "<!-- SEED-TABLE-BEGIN -->\n" + table + "\n<!-- SEED-TABLE-END -->", s, flags=re.S)
open(p, "w").write(s)
print(len(rows), "rows")
