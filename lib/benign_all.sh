#!/bin/bash
# runs lib/benign.py over the whole corpus (sequentially); one line per patch in .cache/benignlogs/summary.txt
cd "$(dirname "$0")/.." || exit 2
mkdir -p .cache/benignlogs; : > .cache/benignlogs/summary.txt
for f in benign/*.diff; do
  n=$(basename "$f" .diff)
  python3 lib/benign.py "$f" --kani > .cache/benignlogs/$n.log 2>&1
  echo "$n $(tail -n 1 .cache/benignlogs/$n.log)" >> .cache/benignlogs/summary.txt
done
echo done >> .cache/benignlogs/summary.txt
