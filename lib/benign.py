#!/usr/bin/env python3
"""benign.py <patch.diff> [--kani] [--props]
False-alarm test: apply a behaviour-preserving edit to a scratch copy of /repo and run every Verus unit (in parallel)
against it; with --kani also every quick-tier Kani harness attached to a file the patch touches; with --props the
property checks of every unit that went red (to see the verdict a user would get).  A unit that is not `ok` here is a
false alarm (status failed) or a lost anchor / unsupported construct (status undecided, never reported as a violation).
Prints one line per unit that is not ok and a summary line; exit 0 iff everything stayed ok."""
import concurrent.futures as cf
import os, re, shutil, subprocess, sys, tempfile

VERIF = os.path.dirname(os.path.dirname(os.path.abspath(__file__)))
sys.path.insert(0, os.path.join(VERIF, "lib"))


def sh(cmd, **kw):
    return subprocess.run(cmd, stdout=subprocess.PIPE, stderr=subprocess.STDOUT, text=True, **kw)


def main():
    patch = os.path.abspath(sys.argv[1])
    d = tempfile.mkdtemp(prefix="vp-benign-", dir="/root/scratch" if os.path.isdir("/root/scratch") else None)
    try:
        subprocess.run(["rsync", "-a", "--exclude", "target", "--exclude", ".git", "--exclude", "benign", "/repo/", d + "/"], check=True)
        r = sh(["patch", "-p1", "-s", "-i", patch], cwd=d)
        if r.returncode != 0:
            print("PATCH-DOES-NOT-APPLY", r.stdout[-300:])
            return 3
        touched = re.findall(r"^\+\+\+ b/(\S+)", open(patch).read(), re.M)
        env = dict(os.environ, VP_REPO=d)
        units = sorted(f[:-6] for f in os.listdir(os.path.join(VERIF, "units")) if f.endswith(".rs.in"))
        bad = []

        def run_unit(u):
            return u, sh([os.path.join(VERIF, "check"), "--unit", u], env=env)

        with cf.ThreadPoolExecutor(max_workers=8) as ex:
            for u, r in ex.map(run_unit, units):
                if r.returncode != 0:
                    lines = [l for l in r.stdout.split("\n") if l.startswith(" FAIL") or l.startswith("reason") or l.startswith("unit ")]
                    bad.append(u)
                    print("UNIT %s exit %d\n   %s" % (u, r.returncode, "\n   ".join(x[:300] for x in lines[:6])))
        if "--kani" in sys.argv:
            import vpcore as V
            os.environ["VP_REPO"] = d
            idx = V.kani_harness_index()
            hs = sorted(h for h, i in idx.items() if i.get("tier", "quick") == "quick" and V.harness_target(i["file"])[0] in touched)
            if hs:
                r = sh([os.path.join(VERIF, "check"), "--kani"] + hs, env=env)
                if r.returncode != 0:
                    bad.append("kani")
                    print("KANI exit %d\n%s" % (r.returncode, "\n".join(l[:300] for l in r.stdout.split("\n") if "ok" not in l.split()[1:2])[:3000]))
                else:
                    print("kani: %d harnesses ok" % len(hs))
        if "--props" in sys.argv and bad:
            import checkprop  # noqa
        print("BENIGN %s: %s" % (os.path.basename(patch), "all ok" if not bad else "NOT OK: " + ",".join(bad)))
        return 0 if not bad else 1
    finally:
        shutil.rmtree(d, ignore_errors=True)


if __name__ == "__main__":
    sys.exit(main())
