#!/usr/bin/env python3
"""Seeded property-breaking changes (produced by independent sub-agents from the property text only).
  seed.py import <Cxx> <worktree>        copy <worktree>/seeded/<n>/ to /verif/seeded/<Cxx>-<n>/
  seed.py confirm <id>                   scratch copy of /repo: patch applies, compiles, test suite passes with it,
                                         demo fails with it and passes without it            -> meta.json
  seed.py check <id> [Cxx ...]           run ./check <Cxx> (default: the seed's property) against scratch copy + patch
                                         (VP_REPO), record verdict and the obligations that went red -> meta.json
"""
import json, os, re, shutil, subprocess, sys, tempfile, time

VERIF = os.path.dirname(os.path.dirname(os.path.abspath(__file__)))
SEEDED = os.path.join(VERIF, "seeded")


def sh(cmd, **kw):
    return subprocess.run(cmd, stdout=subprocess.PIPE, stderr=subprocess.STDOUT, text=True, **kw)


def meta_path(sid):
    return os.path.join(SEEDED, sid, "meta.json")


def load_meta(sid):
    try:
        return json.load(open(meta_path(sid)))
    except Exception:
        return {"id": sid}


def save_meta(sid, m):
    json.dump(m, open(meta_path(sid), "w"), indent=1)


def scratch(patch=None):
    d = tempfile.mkdtemp(prefix="vp-seed-")
    subprocess.run(["rsync", "-a", "--exclude", "target", "--exclude", ".git", "--exclude", "seeded", "/repo/", d + "/"], check=True)
    # fresh mtimes: a shared cargo target dir must never reuse an artefact built from another scratch copy
    subprocess.run("find %s -name '*.rs' -exec touch {} +" % d, shell=True)
    if patch:
        # patches were made against an earlier /repo HEAD: apply with a little fuzz via `patch` if `git apply` refuses
        r = sh(["git", "apply", "--unsafe-paths", "--directory=" + d, patch], cwd="/")
        if r.returncode != 0:
            r2 = sh(["patch", "-p1", "-s", "-i", patch], cwd=d)
            if r2.returncode != 0:
                shutil.rmtree(d, ignore_errors=True)
                raise RuntimeError("patch does not apply: " + r.stdout + r2.stdout)
    return d


def cmd_import(prop, wt):
    src = os.path.join(wt, "seeded")
    n = 0
    for name in sorted(os.listdir(src)):
        s = os.path.join(src, name)
        if not os.path.isdir(s) or not os.path.exists(os.path.join(s, "patch.diff")):
            continue
        sid = "%s-%s" % (prop, name)
        dst = os.path.join(SEEDED, sid)
        if os.path.exists(dst):
            shutil.rmtree(dst)
        shutil.copytree(s, dst, ignore=shutil.ignore_patterns("target"))
        m = {"id": sid, "property": prop, "source": "independent sub-agent given only the property text and a scratch worktree",
             "base_commit": sh(["git", "-C", wt, "rev-parse", "--short", "HEAD"]).stdout.strip()}
        notes = os.path.join(dst, "notes.md")
        if os.path.exists(notes):
            t = open(notes).read()
            m["needs_to_manifest"] = t[:1500]
        save_meta(sid, m)
        n += 1
        print("imported", sid)
    return 0 if n else 1


def find_run_sh(sid):
    for root, _, files in os.walk(os.path.join(SEEDED, sid)):
        if "run.sh" in files:
            return os.path.join(root, "run.sh")
    return None


def cmd_confirm(sid):
    m = load_meta(sid)
    patch = os.path.join(SEEDED, sid, "patch.diff")
    run = find_run_sh(sid)
    ran = []
    ok = True
    env = dict(os.environ, CARGO_TARGET_DIR=os.environ.get("VP_SEED_TARGET", os.path.join(VERIF, ".cache", "seed-target")), CARGO_INCREMENTAL="0")
    # with the change
    d = scratch(patch)
    try:
        t0 = time.time()
        r = sh(["cargo", "test", "--workspace", "--no-fail-fast", "--offline"], cwd=d, env=env)
        res = re.findall(r"^test result: (\w+)\. (\d+) passed; (\d+) failed", r.stdout, re.M)
        suite_ok = r.returncode == 0 and res and all(x[0] == "ok" for x in res)
        ran.append({"cmd": "cargo test --workspace --no-fail-fast --offline   (tree with the change)", "passed": sum(int(x[1]) for x in res),
                    "failed": sum(int(x[2]) for x in res), "ok": bool(suite_ok), "s": round(time.time() - t0)})
        ok &= bool(suite_ok)
        if run:
            r = sh(["bash", run, d], env=env)
            ran.append({"cmd": "demo run.sh <tree with the change>", "exit": r.returncode, "tail": r.stdout[-600:]})
            ok &= r.returncode != 0
    finally:
        shutil.rmtree(d, ignore_errors=True)
    # without the change
    if run:
        d = scratch(None)
        try:
            r = sh(["bash", run, d], env=env)
            ran.append({"cmd": "demo run.sh <tree without the change>", "exit": r.returncode, "tail": r.stdout[-300:]})
            ok &= r.returncode == 0
        finally:
            shutil.rmtree(d, ignore_errors=True)
    else:
        ok = False
        ran.append({"cmd": "(no run.sh found)"})
    m["confirmed"] = bool(ok)
    m["what_was_run"] = ran
    save_meta(sid, m)
    print(sid, "CONFIRMED" if ok else "NOT CONFIRMED", json.dumps([{k: v for k, v in x.items() if k != "tail"} for x in ran]))
    return 0 if ok else 1


def cmd_check(sid, props):
    m = load_meta(sid)
    props = props or [m.get("property", sid.split("-")[0])]
    patch = os.path.join(SEEDED, sid, "patch.diff")
    d = scratch(patch)
    out = m.setdefault("checks", {})
    try:
        for p in props:
            evdir = tempfile.mkdtemp(prefix="vp-seed-ev-")
            t0 = time.time()
            r = sh([os.path.join(VERIF, "check"), p], env=dict(os.environ, VP_REPO=d, VP_EVIDENCE_DIR=evdir, VP_REPLAY_DIR=evdir))
            viol = re.findall(r"^VIOLATION property=(\S+) replay=(\S+)(.*)$", r.stdout, re.M)
            und = re.findall(r"^UNDECIDED: (.*)$", r.stdout, re.M)
            obligations = []
            for _, path, _ in viol:
                try:
                    t = open(path).read()
                    mm = re.search(r"failed obligation: (.*)\nwhere: (.*)\n", t)
                    if mm:
                        obligations.append("%s @ %s" % (mm.group(1), mm.group(2)))
                except Exception:
                    pass
            out[p] = {"exit": r.returncode, "violations": len(viol), "obligations": obligations[:12], "undecided": und[:4],
                      "s": round(time.time() - t0), "summary": (r.stdout.strip().split("\n") or [""])[-1][:200]}
            shutil.rmtree(evdir, ignore_errors=True)
            print(sid, p, "exit", r.returncode, obligations[:6], und[:2])
    finally:
        shutil.rmtree(d, ignore_errors=True)
    # the verdict of the very first run against this seed is kept (what the checks caught before anything was changed for it)
    if "first_pass" not in m:
        m["first_pass"] = {p: {"exit": v.get("exit"), "obligations": v.get("obligations", [])[:3]} for p, v in out.items()}
    m["detected"] = any(v.get("exit") == 1 for v in out.values())
    save_meta(sid, m)
    return 0


if __name__ == "__main__":
    a = sys.argv[1:]
    os.makedirs(SEEDED, exist_ok=True)
    if a[0] == "import":
        sys.exit(cmd_import(a[1], a[2]))
    if a[0] == "confirm":
        sys.exit(cmd_confirm(a[1]))
    if a[0] == "check":
        sys.exit(cmd_check(a[1], a[2:]))
