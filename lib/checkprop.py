"""Decide one property: run its Verus units and Kani harnesses on /repo's working tree, classify every
failed obligation (DESIGN §3.6), write evidence/<id>.json, print VIOLATION / KNOWN-FINDING lines."""
import json
import os
import re
import sys
import time
import concurrent.futures as cf

import vpcore as V
import props as P


def unit_props(unit):
    head = open(os.path.join(V.UNITS, unit + ".rs.in")).read(4000)
    m = re.search(r"//\s*vp-unit:\s*props=([\w,]+)", head)
    return m.group(1).split(",") if m else []


def all_units():
    return sorted(f[:-6] for f in os.listdir(V.UNITS) if f.endswith(".rs.in"))


def unit_text(unit_or_path, depth=0):
    """template text of a unit with its //@include files expanded (for scanning, not for verification)"""
    path = unit_or_path if os.path.isabs(unit_or_path) else os.path.join(V.UNITS, unit_or_path + ".rs.in")
    out = []
    try:
        for line in open(path).read().split("\n"):
            m = re.match(r"\s*//@include\s+(\S+)", line)
            if m and depth < 6:
                out.append(unit_text(os.path.join(os.path.dirname(path), m.group(1)), depth + 1))
            else:
                out.append(line)
    except OSError:
        pass
    return "\n".join(out)


def unit_dependencies(unit, idx):
    """what a unit's proofs rest on, as written in the unit: `//@define ASSUME_UNIT_x` (contracts of unit x included in
    assume mode: the whole unit) and `ASSUMED-FROM-UNIT: <unit> <functions…>` / `ASSUMED-FROM-UNIT: kani <harness> …`
    comments on assumed contracts.  Returns ({dep unit: set of words of the comment, or None for the whole unit}, harnesses)"""
    t = unit_text(unit)
    units, harnesses = {}, set()
    known = set(all_units())
    for m in re.finditer(r"//@define\s+ASSUME_UNIT_(\w+)", t):
        if m.group(1) in known:
            units[m.group(1)] = None
    for m in re.finditer(r"ASSUMED-FROM-UNIT:\s*(.*)", t):
        rest = m.group(1).strip()
        toks = rest.split()
        if not toks:
            continue
        if toks[0] == "kani":
            for name in re.findall(r"\bc\d\d_[A-Za-z0-9_]*\*?", rest):
                if name.endswith("*"):
                    harnesses.update(h for h in idx if h.startswith(name[:-1]))
                elif name in idx:
                    harnesses.add(name)
        elif toks[0] in known:
            words = set(re.findall(r"[A-Za-z_][A-Za-z0-9_]*", rest.split(" — ")[0]))
            if toks[0] in units and units[toks[0]] is None:
                continue
            units.setdefault(toks[0], set()).update(words)
    units.pop(unit, None)
    return units, harnesses


def dependency_closure(units, idx):
    """direct dependencies only: the contracts these units themselves assume.  (The transitive closure is nearly every
    unit and harness for nearly every property; what a dependency assumes in turn is decided under its own properties.)"""
    du, dh = {}, set()
    for u in units:
        a, b = unit_dependencies(u, idx)
        dh |= b
        for k, w in a.items():
            if k in units:
                continue
            if w is None or du.get(k, set()) is None:
                du[k] = None
            else:
                du.setdefault(k, set()).update(w)
    return du, sorted(dh)


def reachable_functions(items, words):
    """functions of a dependency unit that an assumed contract rests on: the functions named in the ASSUMED-FROM-UNIT
    comment and everything they call inside that unit (textual call graph over the extracted items, by short name)"""
    fns = {}
    for it in items:
        if it.get("kind") == "fn":
            fns.setdefault(it["name"], []).append(it.get("src_text", ""))
    start = set(n for n in fns if n in words)
    if not start:
        return None   # the comment names no function of that unit: the whole unit
    seen, todo = set(start), list(start)
    while todo:
        n = todo.pop()
        for body in fns.get(n, []):
            for callee in fns:
                if callee not in seen and re.search(r"\b%s\s*(::<[^>]*>)?\(" % re.escape(callee), body):
                    seen.add(callee)
                    todo.append(callee)
    return seen


def load_json(path, dflt):
    try:
        return json.load(open(path))
    except Exception:
        return dflt


def failure_belongs(f, prop, uprops):
    tags = [t for t in f["tags"]]
    # a composed property (C01) is broken by a broken obligation of any property it is composed of, in the units it runs
    accept = [prop] + list((P.PROPS.get(prop) or {}).get("compose", []))
    # an aggregate property (C06: panic-freedom rests on every contract of the functions it covers being true) is broken
    # by any failed obligation inside a function tagged with it, whatever property the failed clause is named after
    if (P.PROPS.get(prop) or {}).get("aggregate") and prop in (f.get("fn_tags") or []):
        return True
    if tags:
        return any(t.startswith(a + ".") for t in tags for a in accept)
    if f["fn_tags"]:
        return any(a in f["fn_tags"] for a in accept)
    return prop in uprops


def obligation_name(f):
    own = f["tags"]
    if own:
        return ",".join(own)
    return "implicit(%s)" % f["message"]


def sanitize(s):
    return re.sub(r"[^A-Za-z0-9_.\-]+", "_", s)[:120]


def match_known(known, prop, obligation, where, site_text):
    for k in known:
        if k.get("property") != prop:
            continue
        if k.get("obligation") and k["obligation"] not in obligation:
            continue
        if k.get("where") and k["where"] != where:
            continue
        if k.get("site_contains") and k["site_contains"] not in (site_text or ""):
            continue
        return k
    return None


def run_unit_with_canary(unit):
    r = V.run_verus_unit(unit, canary=False)
    canary = None
    if r.status in ("ok", "failed"):
        c = V.run_verus_unit(unit, canary=True)
        # a contract is vacuous iff `assert(false)` at the function's entry *verifies*; a function the solver gives
        # up on (rlimit) is not vacuous.  Functions are matched by short name and counted (several impls may share one).
        want = {}
        for it in c.items:
            if it["kind"] == "fn" and not it["external_body"]:
                want[it["name"]] = want.get(it["name"], 0) + 1
        refuted = {}
        for f in c.functions:
            if not f["success"]:
                short = f["name"].split("::")[-1]
                refuted[short] = refuted.get(short, 0) + 1
        for f in c.failures:   # functions reported through diagnostics only
            if f.get("function") and f["function"] not in refuted:
                refuted[f["function"]] = refuted.get(f["function"], 0) + 1
        missing = sorted(n for n, k in want.items() if refuted.get(n, 0) < k)
        total = sum(want.values())
        ok_n = sum(min(k, refuted.get(n, 0)) for n, k in want.items())
        status = c.status
        if c.status == "undecided" and c.functions and not missing:
            status = "failed"   # rlimit noise in a canary run is irrelevant once every entry canary is refuted
        canary = {"run": total, "failed_as_expected": ok_n, "vacuous": missing, "status": status, "reason": c.reason}
    return r, canary


def check_property(prop, tier):
    t0 = time.time()
    seed = int(os.environ.get("VERIF_SEED", "0") or 0)
    info = P.PROPS.get(prop)
    evpath = os.path.join(os.environ.get("VP_EVIDENCE_DIR") or os.path.join(V.VERIF, "evidence"), prop + ".json")
    os.makedirs(os.path.dirname(evpath), exist_ok=True)
    if info is None or info.get("not_applicable"):
        print("property %s is not claimed (not applicable): %s" % (prop, (info or {}).get("not_applicable", "unknown id")))
        return 2
    known = load_json(os.path.join(V.VERIF, "known_findings.json"), {}).get("findings", [])
    units = [u for u in all_units() if prop in unit_props(u)]
    idx = V.kani_harness_index()
    harnesses = sorted(h for h, m in idx.items() if prop in m.get("props", "").split(",")
                       and (tier == "thorough" or m.get("tier", "quick") == "quick"))
    # what the proofs of these units rest on (contracts they assume from other units / harnesses): run too; a failure
    # anywhere in a dependency breaks this property's proof and is reported under it, whatever its own tag says
    dep_map, dep_h = dependency_closure(units, idx)
    dep_units = sorted(dep_map)
    dep_h = sorted(h for h in dep_h if h not in harnesses and (tier == "thorough" or idx[h].get("tier", "quick") == "quick"))
    own_units = list(units)
    own_harnesses = list(harnesses)
    units = units + dep_units
    harnesses = harnesses + dep_h
    undecided = []
    violations = []   # (obligation, where, detail, replay-text, found_input)
    known_hits = []
    obligations = 0
    discharged = 0
    samples = []
    under_contract = []
    assumed_scan = {}
    rules = {}
    solver_s = 0.0
    canaries = {"run": 0, "failed_as_expected": 0}
    backends = {}
    unit_summ = {}
    # --- Verus units (in parallel with Kani)
    ex = cf.ThreadPoolExecutor(max_workers=8)
    futs = {u: (ex.submit(run_unit_with_canary, u) if u in own_units else ex.submit(lambda x: (V.run_verus_unit(x, canary=False), None), u)) for u in units}
    kfut = ex.submit(V.run_kani, harnesses) if harnesses else None
    for u in units:
        r, canary = futs[u].result()
        uprops = unit_props(u)
        exp = load_json(os.path.join(V.VERIF, "expect", u + ".json"), None)
        unit_summ[u] = {"status": r.status, "verified": r.verified, "errors": r.errors, "solver_ms": r.solver_ms, "wall_s": round(r.wall_s, 1)}
        solver_s += r.solver_ms / 1000.0
        for k, v in r.rules.items():
            rules[k] = rules.get(k, 0) + v
        for k, v in r.assumed.items():
            assumed_scan[k] = assumed_scan.get(k, 0) + v
        if r.status == "undecided":
            undecided.append("unit %s: %s" % (u, r.reason))
            continue
        if canary:
            canaries["run"] += canary["run"]
            canaries["failed_as_expected"] += canary["failed_as_expected"]
            if canary["status"] == "undecided":
                undecided.append("unit %s canary run: %s" % (u, canary["reason"]))
            elif canary["vacuous"]:
                undecided.append("unit %s: contract of %s is vacuous (assert(false) at entry verified)" % (u, canary["vacuous"]))
        fnames = {}
        for f in r.functions:
            fnames[f["name"]] = f
        if exp is not None:
            lost = [n for n in exp["functions"] if n not in fnames]
            if lost:
                undecided.append("unit %s: obligations lost (functions no longer checked): %s" % (u, lost[:6]))
            for k, v in exp.get("assumed", {}).items():
                if r.assumed.get(k, 0) != v:
                    undecided.append("unit %s: assumption scan differs from the committed count for %s: %s != %s" % (u, k, r.assumed.get(k, 0), v))
        else:
            undecided.append("unit %s has no committed expectation file (run ./check --bless %s)" % (u, u))
        is_dep = u not in own_units
        for it in r.items:
            if is_dep:
                break
            if it["kind"] == "fn" and not it["external_body"] and (not it["tags"] or prop in it["tags"]):
                under_contract.append({"fn": "%s :: %s :: %s" % (it["file"], it["container"], it["item"]),
                                       "lines": it["src_lines"], "sha256": it["sha256"], "unit": u, "rules": it["rules"]})
        # obligations: one per checked function (exec/proof/spec-termination) of the unit + tagged clauses are samples
        for f in r.functions:
            obligations += 1
            if f["success"]:
                discharged += 1
        backends["verus"] = backends.get("verus", 0) + len(r.functions)
        dep_fns = reachable_functions(r.items, dep_map[u]) if (is_dep and dep_map.get(u) is not None) else None
        for f in r.failures:
            if is_dep:
                # only what the assumed contracts rest on: the functions named in the comments and their callees
                if dep_fns is not None and f.get("function") not in dep_fns:
                    continue
            elif not failure_belongs(f, prop, uprops):
                continue
            ob = obligation_name(f)
            if is_dep:
                ob = "dependency(%s):%s" % (u, ob)
            where = "%s::%s" % (u, f["function"])
            site = (f.get("site") or {}).get("text") or f.get("text") or ""
            k = match_known(known, prop, ob, where, site)
            if k:
                known_hits.append((k, ob, where, site))
                continue
            detail = "obligation %s failed in %s (%s)\nsite: %s\nverifier: %s\n\n%s" % (ob, where, f.get("src"), site, f["message"], f.get("rendered", ""))
            violations.append({"obligation": ob, "where": where, "detail": detail, "input": None, "engine": "verus", "src": f.get("src")})
        for t in r.tags_present:
            if t.startswith(prop + ".") and len(samples) < 40:
                samples.append("%s (unit %s)" % (t, u))
    # --- Kani
    kres = None
    if kfut:
        kres = kfut.result()
        if kres.status == "undecided" and not kres.harnesses:
            undecided.append("kani: " + kres.reason)
        for h in harnesses:
            hi = kres.harnesses.get(h)
            meta = idx[h]
            kind = meta.get("kind", "complete")
            if hi is None:
                undecided.append("kani harness %s: no verdict (%s)" % (h, kres.reason))
                continue
            key = "kani-" + kind
            backends[key] = backends.get(key, 0) + 1
            if kind != "bounded":
                obligations += 1
            if hi["status"] == "ok":
                if kind != "bounded":
                    discharged += 1
                if len(samples) < 60:
                    samples.append("%s: kani %s harness %s (%s checks, %.1fs)" % (meta.get("tag", h), kind, h, hi.get("checks"), hi.get("time_s") or 0))
            elif hi["status"] == "failed":
                ob = meta.get("tag", h)
                if h not in own_harnesses:
                    ob = "dependency(kani):%s" % ob
                descs = "; ".join("%s @ %s:%s" % (c["desc"], c["file"].split("/")[-1], c["line"]) for c in hi["failed_checks"][:6])
                k = match_known(known, prop, ob, h, descs)
                if k:
                    known_hits.append((k, ob, h, descs))
                    continue
                pb = hi.get("playback")
                detail = "kani harness %s (%s) failed: %s\n" % (h, meta["file"], descs)
                if pb and hi.get("playback_native"):
                    pb += "\n--- native execution of this input against the real code (cargo kani playback): test %s\n%s\n" % (
                        hi["playback_native"], hi.get("playback_panic", ""))
                violations.append({"obligation": ob, "where": h, "detail": detail, "input": pb, "engine": "kani", "src": meta["file"]})
            else:
                undecided.append("kani harness %s: %s %s" % (h, hi["status"], hi.get("reason", "")))
            solver_s += hi.get("time_s") or 0
    ex.shutdown(wait=False)
    # --- report
    rc = 0
    repdir = os.path.join(os.environ.get("VP_REPLAY_DIR") or os.path.join(V.VERIF, "replays"), prop)
    for k, ob, where, site in known_hits:
        print("KNOWN-FINDING: property=%s %s [%s at %s]" % (prop, k.get("what", ""), ob, where))
    listed_not_seen = [k for k in known if k.get("property") == prop and not any(k is kh[0] for kh in known_hits)]
    for v in violations:
        os.makedirs(repdir, exist_ok=True)
        path = os.path.join(repdir, sanitize(v["obligation"] + "@" + v["where"]) + ".txt")
        found = False
        body = "property: %s\nfailed obligation: %s\nwhere: %s\nsource: %s\nengine: %s\n\n%s\n" % (prop, v["obligation"], v["where"], v["src"], v["engine"], v["detail"])
        if v["input"]:
            body += "\n--- concrete counterexample from the verifier (Kani concrete playback; run with `cargo kani playback`):\n" + v["input"] + "\n"
            found = True
        else:
            try:
                import replay
                rp = replay.search(prop, v)
            except Exception as e:  # replay aids decide nothing
                rp = None
                body += "\n(replay search not available: %s)\n" % e
            if rp:
                body += "\n--- failing input found by the replay search on the real code:\n" + rp + "\n"
                found = True
        open(path, "w").write(body)
        print("VIOLATION property=%s replay=%s%s" % (prop, path, "" if found else " no-failing-input-found"))
        rc = 1
    if rc == 0 and undecided:
        rc = 2
    for u in undecided:
        print("UNDECIDED: %s" % u)
    ev = {
        "property_id": prop, "tier": tier if tier in ("quick", "thorough") else "quick", "seed": seed,
        "level": "proof",
        "coverage": {
            "obligations": obligations, "discharged": discharged,
            "checker_cmd": "./check %s --tier %s  (verus <unit>.rs --output-json --time on functions extracted from /repo by tools/vp-extract; cargo kani -p <crate> -Z function-contracts -Z stubbing --harness … on an rsync copy of /repo with /verif/kani/** attached)" % (prop, tier),
            "trusted_base": info.get("trusted_base", []),
            "samples": samples[:60] or ["(no obligation sample)"],
            "units": unit_summ,
            "dependencies": {"units": dep_units, "kani_harnesses": dep_h,
                             "meaning": "contracts the units of this property assume from other units / harnesses (ASSUMED-FROM-UNIT comments, ASSUME_UNIT includes), one level deep; they are run too, and a failed obligation in a function such a contract rests on (the functions named in the comment and what they call inside that unit; the whole unit for an include in assume mode) is reported under this property"},
            "kani_harnesses": {h: {k: v for k, v in (kres.harnesses.get(h) or {}).items() if k in ("status", "time_s", "checks", "covers_ok", "covers_total")} for h in harnesses} if kres else {},
            "under_contract": under_contract,
            "backends": backends,
            "rewrite_rule_applications": rules,
            "assumed_scan": assumed_scan,
            "solver_time_s": round(solver_s, 2),
            "canaries": canaries,
            "bounded_standins": [dict(harness=h, bound=idx[h].get("bound", "")) for h in harnesses if idx[h].get("kind") == "bounded"],
            "known_findings_reported": ["%s at %s" % (ob, where) for _, ob, where, _ in known_hits],
            "known_findings_listed_but_not_observed": [k.get("obligation") for k in listed_not_seen],
            "undecided": undecided,
            "explanation": info.get("explanation", ""),
        },
        "assumptions": info.get("assumptions", []),
        "wall_s": round(time.time() - t0, 1),
        "violations": len(violations),
    }
    json.dump(ev, open(evpath, "w"), indent=1)
    print("%s: %d/%d obligations discharged, %d violation(s), %d known finding(s), %d undecided; %.1fs" % (
        prop, discharged, obligations, len(violations), len(known_hits), len(undecided), time.time() - t0))
    return rc
