#!/usr/bin/env python3
"""mut.py <unit|Cxx|kani:h1,h2> <file> <old> <new>   — apply one textual edit to a scratch copy of /repo and run a
unit / property check / harness list against it; prints what went red.  For contract mutation testing."""
import os, subprocess, sys, tempfile, shutil
what, f, old, new = sys.argv[1:5]
tmp = tempfile.mkdtemp(prefix="vp-mut-")
try:
    subprocess.run(["rsync", "-a", "--exclude", "target", "--exclude", ".git", "/repo/", tmp + "/"], check=True)
    p = os.path.join(tmp, f)
    s = open(p).read()
    if s.count(old) != 1:
        print("MUT: old text occurs %d times" % s.count(old)); sys.exit(3)
    open(p, "w").write(s.replace(old, new))
    env = dict(os.environ, VP_REPO=tmp)
    here = os.path.dirname(os.path.dirname(os.path.abspath(__file__)))
    if what.startswith("kani:"):
        cmd = [os.path.join(here, "check"), "--kani"] + what[5:].split(",")
    elif what.startswith("C") and what[1:].isdigit():
        cmd = [os.path.join(here, "check"), what]
    else:
        cmd = [os.path.join(here, "check"), "--unit", what]
    r = subprocess.run(cmd, env=env, stdout=subprocess.PIPE, stderr=subprocess.STDOUT, text=True)
    for ln in r.stdout.split("\n"):
        if ln.startswith(" FAIL") or ln.startswith("unit ") or ln.startswith("VIOLATION") or ln.startswith("UNDECIDED") or ln.startswith("reason") or ln.startswith("kani:") or ln.startswith("  c"):
            print(ln[:260])
    print("exit", r.returncode)
finally:
    shutil.rmtree(tmp, ignore_errors=True)
