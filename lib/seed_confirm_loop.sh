#!/bin/sh
# confirms every imported seed that has no verdict yet (sequential: shares one cargo target cache)
cd /verif
while true; do
  did=0
  for d in seeded/*/; do
    id=$(basename "$d")
    if ! grep -q '"confirmed"' "$d/meta.json" 2>/dev/null; then
      python3 lib/seed.py confirm "$id" >> /tmp/seed-confirm.log 2>&1
      did=1
    fi
  done
  [ -f /tmp/seed-confirm.stop ] && exit 0
  [ "$did" = 0 ] && sleep 60
done
