#!/bin/bash
# confirms, then checks, every imported seed that has no verdict yet.  usage: seed_confirm_loop.sh <worker-id>
# (each worker has its own cargo target cache; a seed is claimed by creating seeded/<id>/.claim)
cd "$(dirname "$0")/.." || exit 2
W="${1:-0}"
mkdir -p .cache/seedlogs
export VP_SEED_TARGET="$PWD/.cache/seed-target-$W"
while true; do
  did=0
  for d in seeded/*/; do
    id=$(basename "$d")
    if ! grep -q "\"confirmed\"" "$d/meta.json" 2>/dev/null; then
      if mkdir "$d/.claim" 2>/dev/null; then
        python3 lib/seed.py confirm "$id" >> .cache/seedlogs/confirm-$W.log 2>&1
        python3 lib/seed.py check "$id" > .cache/seedlogs/$id.log 2>&1
        rmdir "$d/.claim"
        did=1
      fi
    fi
  done
  [ -f .cache/seedlogs/stop ] && exit 0
  [ "$did" = 0 ] && sleep 30
done
