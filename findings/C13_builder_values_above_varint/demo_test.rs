// Demonstration for the C13 defect (appended to h3/src/tests/connection.rs by run_demo.sh): builder values >= 2^62 made
// connection setup panic in <Settings as FrameHeader>::len (VarInt::from_u64(v).unwrap()).

// ---- kaniB demonstration (C13): a configuration the public builders accept panics in connection setup
#[tokio::test]
async fn kanib_c13_client_builder_large_field_section_size() {
    init_tracing();
    let mut pair = Pair::default();
    let mut server = pair.server();
    let client_fut = async {
        // accepted by the builder (plain `u64` setter) ...
        let r = client::builder()
            .max_field_section_size(1u64 << 62)
            .build::<_, _, Bytes>(pair.client().await)
            .await;
        // ... connection setup must complete (Ok or Err), not panic
        let _ = r;
    };
    let server_fut = async {
        let conn = server.next().await;
        let _ = server::Connection::<_, Bytes>::new(conn).await;
    };
    tokio::join!(server_fut, client_fut);
}

#[tokio::test]
async fn kanib_c13_server_builder_large_webtransport_sessions() {
    init_tracing();
    let mut pair = Pair::default();
    let mut server = pair.server();
    let client_fut = async {
        let (mut conn, _client) = client::new(pair.client().await).await.expect("client init");
        let _ = future::poll_fn(|cx| conn.poll_close(cx)).await;
    };
    let server_fut = async {
        let conn = server.next().await;
        // accepted by the builder (plain `u64` setter); setup must complete (Ok or Err), not panic
        let r = server::builder()
            .max_webtransport_sessions(u64::MAX)
            .build::<_, Bytes>(conn)
            .await;
        let _ = r;
    };
    tokio::select! { _ = server_fut => (), _ = client_fut => () };
}
