// Demonstration for the C18 defect (appended to h3-datagram/src/datagram.rs by run_demo.sh).
// RFC 9297 §2.1: an HTTP datagram starts with the quarter stream id (stream id / 4) as a variable-length integer.
#[cfg(test)]
mod vp_c18_demo {
    use super::*;
    use bytes::{Buf, Bytes};
    use std::convert::TryFrom;

    fn wire(stream: u64, payload: &'static [u8]) -> Vec<u8> {
        let d = Datagram::new(StreamId::try_from(stream).unwrap(), Bytes::from_static(payload));
        let mut e = d.encode();
        let mut out = vec![];
        while e.has_remaining() {
            let c = e.chunk().to_vec();
            e.advance(c.len());
            out.extend(c);
        }
        out
    }

    #[test]
    fn encoded_datagram_starts_with_the_quarter_stream_id() {
        assert_eq!(wire(0, b"hi"), vec![0x00, b'h', b'i']);
        assert_eq!(wire(252, b"hi"), vec![0x3f, b'h', b'i'], "stream 252 = quarter id 63");
        assert_eq!(wire(256, b"hi"), vec![0x40, 0x40, b'h', b'i'], "stream 256 = quarter id 64 (2-byte varint)");
    }

    #[test]
    fn datagram_round_trips() {
        let bytes = wire(128, b"payload");
        let d = Datagram::decode(Bytes::from(bytes)).expect("decode");
        assert_eq!(d.stream_id().into_inner(), 128);
        assert_eq!(&d.payload()[..], b"payload");
    }
}
