// Demonstration for the C11 defect (appended to h3/src/qpack/decoder.rs by run_demo.sh).
// RFC 9204 §4.5.1: without a dynamic table a field section must have Required Insert Count 0 (and then S = 0);
// a section announcing a dependency on dynamic-table entries cannot be decoded and must be refused.
#[cfg(test)]
mod vp_c11_prefix {
    use super::*;
    use std::io::Cursor;

    #[test]
    fn required_insert_count_and_negative_base_are_refused_by_the_stateless_decoder() {
        // d1 = indexed static entry 17 (":method GET")
        let ok = decode_stateless(&mut Cursor::new(&[0x00u8, 0x00, 0xd1][..]), u64::MAX).expect("valid section");
        assert_eq!(ok.fields.len(), 1);
        // S = 0 with any Delta Base is valid (RFC 9204 §4.5.1.2)
        assert!(decode_stateless(&mut Cursor::new(&[0x00u8, 0x05, 0xd1][..]), u64::MAX).is_ok());
        // Required Insert Count = 5 (encoded), no dynamic table
        let r = decode_stateless(&mut Cursor::new(&[0x05u8, 0x00, 0xd1][..]), u64::MAX);
        let n = r.as_ref().map(|d| d.fields.len()).unwrap_or(0);
        assert!(r.is_err(), "RIC != 0 accepted: {} field(s) decoded", n);
        // Required Insert Count = 0 with sign bit S = 1 (negative Base)
        let r = decode_stateless(&mut Cursor::new(&[0x00u8, 0x80, 0xd1][..]), u64::MAX);
        assert!(r.is_err(), "S = 1 with RIC = 0 accepted");
    }
}
