#!/bin/sh
# usage: run.sh [repo-root] [--fixed]  — adds c09_drain.rs to h3/src/tests of a scratch copy and runs it.
# Without --fixed: accept() stays pending (both tests fail after their 3 s timeout).  With --fixed: ../C08_goaway_line_and_announce/fix.diff
# (one patch for C08 and C09; the C09 part is the RequestEnd hunk in create_resolver_internal / request.rs) is applied first.
set -e
ROOT="/repo"; FIXED=0
for a in "$@"; do case "$a" in --fixed) FIXED=1;; *) ROOT="$a";; esac; done
HERE="$(cd "$(dirname "$0")" && pwd)"
S=$(mktemp -d /tmp/vp-demo-XXXXXX); trap 'rm -rf "$S"' EXIT
rsync -a --exclude target --exclude .git "$ROOT"/ "$S"/
cp "$HERE/c09_drain.rs" "$S/h3/src/tests/"
printf 'mod c09_drain;\n' >> "$S/h3/src/tests/mod.rs"
if [ "$FIXED" = 1 ]; then (cd "$S" && patch -p1 -s < "$HERE/../C08_goaway_line_and_announce/fix.diff"); fi
cd "$S" && CARGO_TARGET_DIR=/verif/.cache/demo-target RUST_BACKTRACE=0 cargo test --offline -p h3 --lib -- c09_ --nocapture 2>&1 | grep -E "^test |test result|accept\(\)|resolve_request" | head -20
