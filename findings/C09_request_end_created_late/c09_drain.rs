// Focused scenarios for C09 (shutdown drains), real quinn loopback; run with ./run.sh [repo-root].
// Each assertion is the property statement; they fail (accept() hangs) on the pinned tree.
use std::time::Duration;

use futures_util::future;
use http::Request;

use crate::{client, server};

use super::h3_quinn;
use super::{init_tracing, Pair};

/// C09: one request is accepted and its resolver dropped before the headers are resolved; then the client signals
/// shutdown (GOAWAY).  `accept()` must report "no more requests" instead of waiting forever.
#[tokio::test]
async fn c09_resolver_dropped_before_headers() {
    init_tracing();
    let mut pair = Pair::default();
    let mut server = pair.server();
    let (tx, rx) = tokio::sync::oneshot::channel::<()>();

    let client_fut = async {
        let (mut driver, mut send_request) = client::new(pair.client().await).await.unwrap();
        let mut req = send_request
            .send_request(Request::get("http://no.way").body(()).unwrap())
            .await
            .unwrap();
        let _ = req.finish().await;
        rx.await.unwrap(); // the server has accepted and abandoned the request
        driver.shutdown(0).await.unwrap();
        let _ = tokio::time::timeout(Duration::from_secs(5), future::poll_fn(|cx| driver.poll_close(cx))).await;
        drop(send_request);
    };

    let server_fut = async {
        let conn = server.next().await;
        let mut incoming = server::Connection::new(conn).await.unwrap();
        let resolver = incoming.accept().await.unwrap().unwrap();
        drop(resolver);
        tx.send(()).unwrap();
        let r = tokio::time::timeout(Duration::from_secs(3), incoming.accept()).await;
        match r {
            Ok(Ok(None)) => {}
            Ok(Ok(Some(_))) => panic!("unexpected request"),
            Ok(Err(e)) => panic!("connection error {:?}", e),
            Err(_) => panic!("accept() still pending 3 s after the peer's GOAWAY although the only request it handed out was dropped"),
        }
    };

    tokio::join!(server_fut, client_fut);
}

/// C09: the client finishes the stream before sending HEADERS; `resolve_request` reports H3_REQUEST_INCOMPLETE.
#[tokio::test]
async fn c09_fin_before_headers() {
    init_tracing();
    let mut pair = Pair::default();
    let mut server = pair.server();
    let (tx, rx) = tokio::sync::oneshot::channel::<()>();

    let client_fut = async {
        let conn = pair.client_inner().await;
        let (mut driver, send_request) = client::new(h3_quinn::Connection::new(conn.clone())).await.unwrap();
        let (mut send, _recv) = conn.open_bi().await.unwrap();
        send.finish().unwrap(); // FIN, no HEADERS
        rx.await.unwrap();
        driver.shutdown(0).await.unwrap();
        let _ = tokio::time::timeout(Duration::from_secs(5), future::poll_fn(|cx| driver.poll_close(cx))).await;
        drop(send_request);
    };

    let server_fut = async {
        let conn = server.next().await;
        let mut incoming = server::Connection::new(conn).await.unwrap();
        let resolver = incoming.accept().await.unwrap().unwrap();
        let err = resolver.resolve_request().await.map(|_| ()).unwrap_err();
        eprintln!("resolve_request: {:?}", err);
        tx.send(()).unwrap();
        let r = tokio::time::timeout(Duration::from_secs(3), incoming.accept()).await;
        assert!(matches!(r, Ok(Ok(None))), "accept() did not report 'no more requests' within 3 s: {:?}", r.map(|x| x.map(|y| y.is_some())));
    };

    tokio::join!(server_fut, client_fut);
}
