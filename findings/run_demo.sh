#!/bin/sh
# usage: run_demo.sh <finding-dir> <repo-file-to-append-to> <test-filter> [repo-root]
# Appends <finding-dir>/demo_test.rs to a scratch copy of the repository file and runs the tests there.
set -e
F="$1"; TARGET="$2"; FILTER="$3"; ROOT="${4:-/repo}"
S=$(mktemp -d /tmp/vp-demo-XXXXXX)
trap 'rm -rf "$S"' EXIT
rsync -a --exclude target --exclude .git "$ROOT"/ "$S"/
cat "$F/demo_test.rs" >> "$S/$TARGET"
cd "$S" && CARGO_TARGET_DIR=/verif/.cache/demo-target cargo test --offline -p "$(echo "$TARGET" | cut -d/ -f1)" --lib -- "$FILTER" 2>&1 | grep -E "^test |test result|panicked|accepted|answered|got " | head -40
