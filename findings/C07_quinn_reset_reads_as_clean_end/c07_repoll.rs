//! C07 / C17: the peer resets ONE request in the middle of a DATA frame.  The reset is reported on that request as
//! `StreamError::RemoteTerminate` with the peer's code — and the application then reads that request once more (a generic
//! drain loop, `recv_trailers()`, error handling that retries).  Nothing of this may close the connection.
//!
//! On the tree before the fix Quinn answers the read after the reset with "clean end of stream" (it reports a reset once),
//! the h3-quinn adapter passes that on, h3 sees a stream that ended inside a DATA frame, and the driver closes the whole
//! connection with H3_FRAME_ERROR "received incomplete frame"; the healthy neighbour request dies with it.
//! (Scenario adapted from the demonstration of seeded change C07-5; the second read and its assertion are the addition.)

use std::time::Duration;

use assert_matches::assert_matches;
use bytes::{Buf, BufMut, Bytes, BytesMut};
use futures_util::future;
use http::{request, Request, Response};
use tokio::sync::{oneshot, watch};

use crate::{
    client,
    error::{Code, ConnectionError, StreamError},
    proto::{
        frame::{Frame, FrameType},
        headers::Header,
        varint::VarInt,
    },
    qpack,
    quic::ConnectionErrorIncoming,
    server,
};

use super::h3_quinn;
use super::{init_tracing, Pair};

const RESET_CODE: Code = Code::H3_REQUEST_CANCELLED;
const PART1: &[u8] = b"healthy request, first part of the body; ";
const PART2: &[u8] = b"healthy request, second part of the body, sent after the neighbour was reset";

fn request_encode<B: BufMut>(buf: &mut B, req: http::Request<()>) {
    let (parts, _) = req.into_parts();
    let request::Parts {
        method,
        uri,
        headers,
        extensions,
        ..
    } = parts;
    let headers = Header::request(method, uri, headers, extensions).unwrap();
    let mut block = BytesMut::new();
    qpack::encode_stateless(&mut block, headers).unwrap();
    Frame::headers(block).encode_with_payload(buf);
}

async fn pause(ms: u64) {
    tokio::time::sleep(Duration::from_millis(ms)).await;
}

#[tokio::test]
async fn c07_repoll_after_reset() {
    tokio::time::timeout(Duration::from_secs(30), scenario())
        .await
        .expect("the scenario did not finish in time");
}

async fn scenario() {
    init_tracing();
    let mut pair = Pair::default();
    let mut server = pair.server();

    // faulty client -> faulty server side: all pieces of the request are written
    let (sent_tx, sent_rx) = oneshot::channel::<()>();
    // faulty server side -> faulty client: the first pieces were read, reset now
    let (read_tx, read_rx) = oneshot::channel::<()>();
    // faulty client -> everybody: the reset is out and had the time to arrive
    let (reset_tx, reset_rx) = watch::channel(false);

    let client_fut = async {
        let connection = pair.client_inner().await;
        let (mut driver, mut send) = client::new(h3_quinn::Connection::new(connection.clone()))
            .await
            .expect("client init");

        let drive = async { future::poll_fn(|cx| driver.poll_close(cx)).await };

        // The request that gets reset, written by hand to control how its bytes are cut.
        let faulty = async {
            let (mut req_send, req_recv) = connection.open_bi().await.unwrap();

            // HEADERS, then the beginning of a DATA frame of 100 bytes: 10 bytes of payload
            let mut buf = BytesMut::new();
            request_encode(
                &mut buf,
                Request::post("http://localhost/faulty").body(()).unwrap(),
            );
            FrameType::DATA.encode(&mut buf);
            VarInt::from(100u32).encode(&mut buf);
            buf.put_slice(&[b'a'; 10]);
            req_send.write_all(&buf[..]).await.unwrap();
            pause(100).await;
            // two more pieces of the same payload, each in a packet of its own
            req_send.write_all(&[b'b'; 10]).await.unwrap();
            pause(100).await;
            req_send.write_all(&[b'c'; 10]).await.unwrap();
            pause(100).await;
            sent_tx.send(()).unwrap();

            // wait until the server application has taken the first pieces
            read_rx.await.unwrap();
            req_send
                .reset(quinn::VarInt::from_u64(RESET_CODE.value()).unwrap())
                .unwrap();
            pause(300).await;
            reset_tx.send(true).unwrap();
            // keep the receive half open until the end of the test
            req_recv
        };

        // The healthy neighbour, through the h3 client.
        let mut reset_seen = reset_rx.clone();
        let healthy = async {
            let mut stream = send
                .send_request(Request::post("http://localhost/healthy").body(()).unwrap())
                .await
                .expect("healthy request: send_request");
            stream
                .send_data(Bytes::from_static(PART1))
                .await
                .expect("healthy request: first part of the body");
            reset_seen.wait_for(|done| *done).await.unwrap();
            stream
                .send_data(Bytes::from_static(PART2))
                .await
                .expect("healthy request: second part of the body");
            stream.finish().await.expect("healthy request: finish");

            let response = stream
                .recv_response()
                .await
                .expect("healthy request: response");
            assert_eq!(response.status(), 200);
            let mut body = Vec::new();
            while let Some(mut chunk) = stream
                .recv_data()
                .await
                .expect("healthy request: response body")
            {
                body.extend_from_slice(&chunk.copy_to_bytes(chunk.remaining()));
            }
            assert_eq!(body, [PART1, PART2].concat(), "healthy request: echoed body");
            // last sender: closes the connection with H3_NO_ERROR
            drop(send);
        };

        let (closed, _req_recv, ()) = tokio::join!(drive, faulty, healthy);
        assert!(
            closed.is_h3_no_error(),
            "client: the connection must end with H3_NO_ERROR, got {:?}",
            closed
        );
    };

    let server_fut = async {
        let conn = server.next().await;
        let mut incoming = server::Connection::new(conn).await.unwrap();

        let mut faulty_stream = None;
        let mut healthy_stream = None;
        for _ in 0..2 {
            let resolver = incoming.accept().await.unwrap().expect("a request");
            let (req, stream) = resolver.resolve_request().await.expect("request headers");
            match req.uri().path() {
                "/faulty" => faulty_stream = Some(stream),
                "/healthy" => healthy_stream = Some(stream),
                other => panic!("unexpected request {}", other),
            }
        }
        let mut faulty_stream = faulty_stream.expect("the faulty request");
        let mut healthy_stream = healthy_stream.expect("the healthy request");

        // keeps the connection driven, and observes how it ends
        let driver = async move { incoming.accept().await.map(|r| r.is_some()) };

        let mut reset_seen = reset_rx.clone();
        let faulty = async {
            sent_rx.await.unwrap();
            // Two reads. Each one pulls a further piece from the transport into the buffer
            // before handing out the oldest one, so a piece stays buffered afterwards.
            let mut got = Vec::new();
            for _ in 0..2 {
                if let Ok(res) =
                    tokio::time::timeout(Duration::from_secs(1), faulty_stream.recv_data()).await
                {
                    let mut chunk = res
                        .expect("faulty request: body before the reset")
                        .expect("faulty request: body before the reset");
                    got.extend_from_slice(&chunk.copy_to_bytes(chunk.remaining()));
                }
            }
            let sent = [[b'a'; 10], [b'b'; 10], [b'c'; 10]].concat();
            assert!(!got.is_empty() && sent.starts_with(&got));
            read_tx.send(()).unwrap();

            reset_seen.wait_for(|done| *done).await.unwrap();
            let err = loop {
                match faulty_stream.recv_data().await {
                    Ok(Some(mut chunk)) => {
                        got.extend_from_slice(&chunk.copy_to_bytes(chunk.remaining()));
                        assert!(sent.starts_with(&got));
                    }
                    Ok(None) => panic!("faulty request: it was reset, its body has no end"),
                    Err(err) => break err,
                }
            };
            assert_matches!(
                err,
                StreamError::RemoteTerminate { code } if code == RESET_CODE,
                "faulty request: the reset must be reported as a stream error with its code"
            );
            // the application reads once more after the error (e.g. a generic drain loop, or recv_trailers)
            let again = faulty_stream.recv_data().await.map(|o| o.map(|mut c| c.copy_to_bytes(c.remaining())));
            println!("REPOLL after reset: {:?}", again);
            assert!(!matches!(again, Err(StreamError::ConnectionError(_))), "re-reading a reset request raised a CONNECTION error: {:?}", again);
        };

        let healthy = async {
            let mut body = Vec::new();
            while let Some(mut chunk) = healthy_stream
                .recv_data()
                .await
                .expect("healthy request: request body")
            {
                body.extend_from_slice(&chunk.copy_to_bytes(chunk.remaining()));
            }
            assert_eq!(body, [PART1, PART2].concat(), "healthy request: received body");
            healthy_stream
                .send_response(Response::builder().status(200).body(()).unwrap())
                .await
                .expect("healthy request: send_response");
            healthy_stream
                .send_data(Bytes::from(body))
                .await
                .expect("healthy request: send_data");
            healthy_stream
                .finish()
                .await
                .expect("healthy request: finish");
        };

        let (ended, (), ()) = tokio::join!(driver, faulty, healthy);
        assert_matches!(
            ended,
            Err(ConnectionError::Remote(ConnectionErrorIncoming::ApplicationClose { error_code }))
                if error_code == Code::H3_NO_ERROR.value(),
            "server: the connection must stay open until the client closes it with H3_NO_ERROR"
        );
    };

    tokio::join!(server_fut, client_fut);
}
