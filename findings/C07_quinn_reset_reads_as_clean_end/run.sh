#!/bin/sh
# usage: run.sh [repo-root] [--unfixed]  — adds c07_repoll.rs to h3/src/tests of a scratch copy and runs it.
# On the repaired tree it passes.  --unfixed first reverts fix.diff in the scratch copy (the tree as it was pinned): the second
# read of the reset request reports a connection error H3_FRAME_ERROR and the connection is closed.
set -e
ROOT="/repo"; UNFIXED=0
for a in "$@"; do case "$a" in --unfixed) UNFIXED=1;; *) ROOT="$a";; esac; done
HERE="$(cd "$(dirname "$0")" && pwd)"
S=$(mktemp -d /tmp/vp-demo-XXXXXX); trap 'rm -rf "$S"' EXIT
rsync -a --exclude target --exclude .git "$ROOT"/ "$S"/
find "$S" -name '*.rs' -exec touch {} +
cp "$HERE/c07_repoll.rs" "$S/h3/src/tests/"
printf 'mod c07_repoll;\n' >> "$S/h3/src/tests/mod.rs"
if [ "$UNFIXED" = 1 ]; then (cd "$S" && patch -R -p1 -s < "$HERE/fix.diff"); fi
cd "$S" && CARGO_TARGET_DIR=/verif/.cache/demo-target RUST_BACKTRACE=0 cargo test --offline -p h3 --lib -- c07_repoll --nocapture 2>&1 | grep -E "^test |test result|REPOLL|CONNECTION error" | head -20
