// --- verusERR demonstration for [C07.incomplete.client]: a response stream that ends before its HEADERS
#[tokio::test]
async fn verus_err_fin_before_response_headers_is_stream_scoped() {
    init_tracing();
    let mut pair = Pair::default();
    let mut server = pair.server();

    let client_fut = async {
        let (mut driver, mut client) = client::new(pair.client().await).await.expect("client init");
        let drive_fut = async { future::poll_fn(|cx| driver.poll_close(cx)).await };
        let req_fut = async move {
            let mut a = client
                .send_request(Request::get("http://localhost/a").body(()).unwrap())
                .await
                .expect("request a");
            a.finish().await.expect("finish a");
            let mut b = client
                .send_request(Request::get("http://localhost/b").body(()).unwrap())
                .await
                .expect("request b");
            b.finish().await.expect("finish b");

            // the server ends A's response stream without sending anything
            let err_a = a.recv_response().await.map(|_| ()).unwrap_err();
            // B is a healthy neighbour
            let res_b = b.recv_response().await.map(|r| r.status());
            println!("VERUSERR request A: {:?}", err_a);
            println!("VERUSERR request B: {:?}", res_b);
            (err_a, res_b)
        };
        tokio::pin!(req_fut);
        tokio::pin!(drive_fut);
        tokio::select! {
            biased;
            r = &mut req_fut => (r, None),
            e = &mut drive_fut => {
                println!("VERUSERR client driver ended: {:?}", e);
                let r = req_fut.await;
                (r, Some(e))
            }
        }
    };

    let server_fut = async {
        let conn = server.next().await;
        let mut incoming_req = server::Connection::new(conn).await.unwrap();
        let (_req_a, mut stream_a) = get_stream_blocking(&mut incoming_req).await.expect("accept a");
        let (_req_b, mut stream_b) = get_stream_blocking(&mut incoming_req).await.expect("accept b");
        // A: FIN, no HEADERS
        stream_a.finish().await.expect("finish a");
        tokio::time::sleep(Duration::from_millis(200)).await;
        // B: a normal response (may fail if the client tore the connection down)
        let sent_b = async {
            stream_b
                .send_response(Response::builder().status(200).body(()).unwrap())
                .await?;
            stream_b.finish().await
        }
        .await;
        println!("VERUSERR server side of B: {:?}", sent_b);
        let end = incoming_req.accept().await.map(|_| ());
        println!("VERUSERR server accept loop ended with: {:?}", end);
    };

    let (((err_a, res_b), driver_end), _) = tokio::join!(client_fut, server_fut);
    assert!(driver_end.is_none(), "the client's connection was closed: {:?}", driver_end);
    assert!(
        !matches!(err_a, StreamError::ConnectionError(_)),
        "FIN before response HEADERS escalated to a connection error: {:?}",
        err_a
    );
    assert_eq!(res_b.expect("healthy request B"), StatusCode::OK);
}
