// Demonstration for the C15 Huffman padding defect "padding that is not all ones is accepted"
// (appended to h3/src/qpack/prefix_string/mod.rs by run_demo.sh:
//   /verif/findings/run_demo.sh /verif/findings/C15_huffman_padding_not_ones h3/src/qpack/prefix_string/mod.rs vp_c15_huff_not_ones <repo-root>).
// RFC 7541 §5.2: "A padding not corresponding to the most significant bits of the code for the EOS symbol MUST be
// treated as a decoding error."  The decoder's end-of-input check only looked at the bits from its current table
// lookup on, not at the bits of the cut-off code it had already walked through, so a partially matched code was
// taken for padding.  Obligation C15.huff.eof.ones (Kani harness c15_huff_eof_padding_not_ones).
#[cfg(test)]
mod vp_c15_huff_not_ones {
    use super::*;
    use std::io::Cursor;

    /// string literal with an 8-bit first octet: H = 1, 7-bit length, then the Huffman payload
    fn huff(payload: &[u8]) -> Result<Vec<u8>, Error> {
        let mut wire = vec![0x80 | payload.len() as u8];
        wire.extend_from_slice(payload);
        decode(8, &mut Cursor::new(&wire))
    }

    #[test]
    fn partial_code_ending_on_the_octet_boundary_is_not_padding() {
        // '0' = 00000, ' ' = 010100, then 10111: the first five bits of the 7-bit codes of ':' 'B' 'C' 'D'
        let r = huff(&[0x02, 0x97]);
        assert!(r.is_err(), "02 97 accepted as {:?}", r);
    }

    #[test]
    fn partial_code_followed_by_a_one_is_not_padding() {
        // '0' '0' then 10111 1: five bits of a 7-bit code and a single one-bit
        let r = huff(&[0x00, 0x2f]);
        assert!(r.is_err(), "00 2f accepted as {:?}", r);
        // '0' then 010 (start of a 6-bit code)
        let r = huff(&[0x02]);
        assert!(r.is_err(), "02 accepted as {:?}", r);
    }

    #[test]
    fn every_one_octet_payload_with_a_zero_in_its_tail_is_refused() {
        // all 256 single-octet payloads against the rule: accepted <=> the octet is one complete code of <= 8 bits
        // followed by ones only, or ones only.  (5-bit codes are 00000..01001, 6-bit 010100..101101, 7-bit
        // 1011100..1111011, 8-bit 11111000..11111101; checked here only through the tail being all ones.)
        let mut bad = Vec::new();
        for b in 0..=255u8 {
            if let Ok(v) = huff(&[b]) {
                // whatever was decoded, the bits behind the decoded symbols must be ones
                let used: u32 = v.iter().map(|c| match *c {
                    b'0' | b'1' | b'2' | b'a' | b'c' | b'e' | b'i' | b'o' | b's' | b't' => 5,
                    b'&' | b'*' | b',' | b';' | b'X' | b'Z' => 8,
                    b':' | b'B'..=b'W' | b'Y' | b'j' | b'k' | b'q' | b'v' | b'w' | b'x' | b'y' | b'z' => 7,
                    _ => 6,
                }).sum();
                let tail_mask = if used >= 8 { 0 } else { 0xffu8 >> used };
                if b & tail_mask != tail_mask {
                    bad.push((b, v));
                }
            }
        }
        assert!(bad.is_empty(), "payloads with a zero bit in the padding accepted: {:02x?}", bad);
    }

    #[test]
    fn valid_strings_are_still_accepted() {
        assert_eq!(huff(&[0x07]).unwrap(), b"0");
        assert_eq!(huff(&[]).unwrap(), b"");
        assert_eq!(huff(&[0xf8]).unwrap(), b"&"); // no padding at all
        assert_eq!(
            huff(&[0xf1, 0xe3, 0xc2, 0xe5, 0xf2, 0x3a, 0x6b, 0xa0, 0xab, 0x90, 0xf4, 0xff]).unwrap(),
            b"www.example.com" // RFC 7541 C.4.1
        );
    }
}
