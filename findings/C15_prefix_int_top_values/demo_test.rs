// Demonstration for the C15 prefixed-integer defect (appended to h3/src/qpack/prefix_int.rs by run_demo.sh:
//   /verif/findings/run_demo.sh /verif/findings/C15_prefix_int_top_values h3/src/qpack/prefix_int.rs vp_c15_int_demo <repo-root>).
// RFC 7541 §5.1 / property C15: every integer round-trips for every prefix size, and decoding rejects values
// beyond its range instead of wrapping.  Values >= 2^63 + 2^N - 1 are encoded with ten continuation octets,
// which the decoder (MAX_POWER = 9 * 7) refused as Overflow.  Obligations: C15.int.decode.top, C15.int.roundtrip.top
// (Kani harnesses c15_int_decode_top, c15_int_roundtrip_top).
#[cfg(test)]
mod vp_c15_int_demo {
    use super::*;
    use std::io::Cursor;

    fn roundtrip(size: u8, flags: u8, value: u64) -> (Vec<u8>, Result<(u8, u64), Error>) {
        let mut wire = Vec::new();
        encode(size, flags, value, &mut wire);
        let mut r = Cursor::new(&wire);
        let res = decode(size, &mut r);
        (wire, res)
    }

    #[test]
    fn u64_max_round_trips_with_an_8_bit_prefix() {
        let (wire, res) = roundtrip(8, 0, u64::MAX);
        assert_eq!(wire, [0xff, 0x80, 0xfe, 0xff, 0xff, 0xff, 0xff, 0xff, 0xff, 0xff, 0x01]);
        assert!(res == Ok((0, u64::MAX)), "encode(8, 0, u64::MAX) = {:02x?}, decode got {:?}", wire, res);
    }

    #[test]
    fn first_value_needing_ten_continuation_octets_round_trips_for_every_prefix_size() {
        for size in 1..=8u8 {
            let v = (1u64 << 63) + ((1u64 << size) - 1);
            let (wire, res) = roundtrip(size, 0, v);
            assert_eq!(wire.len(), 11);
            assert!(res == Ok((0, v)), "size {}: encode({}) = {:02x?}, decode got {:?}", size, v, wire, res);
            // the value just below still needs only nine
            let (wire, res) = roundtrip(size, 0, v - 1);
            assert_eq!(wire.len(), 10);
            assert!(res == Ok((0, v - 1)), "size {}: decode got {:?}", size, res);
        }
    }

    #[test]
    fn values_beyond_u64_are_still_rejected_not_wrapped() {
        // 2^64 exactly with a 5-bit prefix (the repository's `overflow2` vector)
        let mut r = Cursor::new(vec![95u8, 225, 255, 255, 255, 255, 255, 255, 255, 255, 1]);
        assert!(decode(5, &mut r) == Err(Error::Overflow), "2^64 accepted");
        // 255 + 2^64: tenth continuation octet = 2
        let mut r = Cursor::new(vec![255u8, 128, 128, 128, 128, 128, 128, 128, 128, 128, 2]);
        assert!(decode(8, &mut r) == Err(Error::Overflow), "255 + 2^64 accepted");
        // 255 + (2^63 - 1) + 2^63 = 2^64 + 254: every octet in range, the sum is not
        let mut r = Cursor::new(vec![255u8, 255, 255, 255, 255, 255, 255, 255, 255, 255, 1]);
        assert!(decode(8, &mut r) == Err(Error::Overflow), "2^64 + 254 accepted (wrapped)");
        // an eleventh continuation octet
        let mut r = Cursor::new(vec![255u8, 128, 128, 128, 128, 128, 128, 128, 128, 128, 129, 0]);
        assert!(decode(8, &mut r) == Err(Error::Overflow), "eleven continuation octets accepted");
    }
}
