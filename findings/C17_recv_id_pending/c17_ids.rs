//! C17 [C17.id]: the stream identifiers reported by the Quinn adapter are constant and asking for them never
//! panics, whatever read or write is in flight.
use std::future::poll_fn;
use std::task::Poll;

use bytes::Bytes;

use super::h3_quinn;
use super::Pair;
use crate::quic::{RecvStream as _, SendStream as _};

/// uni stream: `recv_id()` between a `Pending` read and its completion
#[tokio::test]
async fn c17_recv_id_while_read_pending() {
    let mut pair = Pair::default();
    let server = pair.server();

    let client = async {
        let conn = pair.client_inner().await; // raw quinn peer
        let mut s = conn.open_uni().await.unwrap();
        s.write_all(b"x").await.unwrap(); // makes the stream visible to the peer; no FIN
        // keep the stream and the connection open until the server is done
        tokio::time::sleep(std::time::Duration::from_millis(500)).await;
        drop(s);
        conn.close(0u32.into(), b"done");
    };

    let server = async {
        let mut conn: h3_quinn::Connection =
            h3_quinn::Connection::new(server.endpoint.accept().await.unwrap().await.unwrap());
        let mut recv: h3_quinn::RecvStream =
            poll_fn(|cx| <h3_quinn::Connection as crate::quic::Connection<Bytes>>::poll_accept_recv(&mut conn, cx))
                .await
                .unwrap();
        let id0 = recv.recv_id(); // idle: fine
        // first read: the byte
        let first = poll_fn(|cx| recv.poll_data(cx)).await.unwrap();
        assert_eq!(first.as_deref(), Some(&b"x"[..]));
        let id1 = recv.recv_id(); // read completed: fine
        assert_eq!(id0, id1);
        // second read: nothing more has been sent and the stream is not finished => Pending
        let p = poll_fn(|cx| Poll::Ready(recv.poll_data(cx))).await;
        assert!(p.is_pending());
        // a read is now in flight (or was cancelled: the caller simply stopped polling)
        let id2 = recv.recv_id(); // pinned tree: panics (Option::unwrap on None)
        assert_eq!(id0, id2);
    };

    tokio::join!(server, client);
}

/// bidi stream: same through `BidiStream::recv_id`; `send_id` is unaffected by a pending read or an unfinished write
#[tokio::test]
async fn c17_bidi_ids_while_read_pending() {
    let mut pair = Pair::default();
    let server = pair.server();

    let client = async {
        let conn = pair.client_inner().await;
        let (mut s, _r) = conn.open_bi().await.unwrap();
        s.write_all(b"x").await.unwrap();
        tokio::time::sleep(std::time::Duration::from_millis(500)).await;
        drop(s);
        conn.close(0u32.into(), b"done");
    };

    let server = async {
        let mut conn: h3_quinn::Connection =
            h3_quinn::Connection::new(server.endpoint.accept().await.unwrap().await.unwrap());
        let mut bidi: h3_quinn::BidiStream<Bytes> =
            poll_fn(|cx| <h3_quinn::Connection as crate::quic::Connection<Bytes>>::poll_accept_bidi(&mut conn, cx))
                .await
                .unwrap();
        let rid0 = bidi.recv_id();
        let sid0 = bidi.send_id();
        assert_eq!(rid0, sid0);
        let first = poll_fn(|cx| bidi.poll_data(cx)).await.unwrap();
        assert_eq!(first.as_deref(), Some(&b"x"[..]));
        let p = poll_fn(|cx| Poll::Ready(bidi.poll_data(cx))).await;
        assert!(p.is_pending());
        // an accepted-but-unwritten buffer on the send side as well
        bidi.send_data(crate::proto::frame::Frame::Data(Bytes::from_static(b"hello"))).unwrap();
        assert_eq!(bidi.send_id(), sid0); // fine: SendStream keeps its quinn stream
        let rid1 = bidi.recv_id(); // pinned tree: panics
        assert_eq!(rid0, rid1);
    };

    tokio::join!(server, client);
}
