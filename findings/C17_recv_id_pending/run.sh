#!/bin/sh
# usage: run.sh [repo-root]   — adds c17_ids.rs to h3/src/tests of a scratch copy and runs it
set -e
ROOT="${1:-/repo}"; HERE="$(cd "$(dirname "$0")" && pwd)"
S=$(mktemp -d /tmp/vp-demo-XXXXXX); trap 'rm -rf "$S"' EXIT
rsync -a --exclude target --exclude .git "$ROOT"/ "$S"/
cp "$HERE/c17_ids.rs" "$S/h3/src/tests/c17_ids.rs"
echo "mod c17_ids;" >> "$S/h3/src/tests/mod.rs"
cd "$S" && CARGO_TARGET_DIR=/verif/.cache/demo-target cargo test --offline -p h3 --lib -- c17_ 2>&1 | grep -E "^test |test result|panicked|unwrap" | head
