// Demonstration for the C02/C03/C06 defect in FrameStream::poll_data (appended to h3/src/frame.rs by run_demo.sh).
// A DATA frame announces 4 payload bytes, the peer sends 1 and finishes the stream.  When the FIN is observed by a
// poll that finds nothing buffered, poll_data answers Ok(None) — "end of this DATA payload" — instead of the
// truncated-frame error (RFC 9114 §7.1: H3_FRAME_ERROR), and RequestStream::poll_recv_data reports a clean end of body.
#[cfg(test)]
mod vp_c03_demo {
    use super::*;
    use crate::proto::{coding::Encode, frame::FrameType, varint::VarInt};
    use bytes::{BufMut, Bytes, BytesMut};
    use std::collections::VecDeque;

    enum Ev { Chunk(Bytes), Pending, Fin }
    struct ScriptRecv { script: VecDeque<Ev> }
    impl RecvStream for ScriptRecv {
        type Buf = Bytes;
        fn poll_data(&mut self, _: &mut Context<'_>) -> Poll<Result<Option<Bytes>, StreamErrorIncoming>> {
            match self.script.pop_front() {
                Some(Ev::Chunk(b)) => Poll::Ready(Ok(Some(b))),
                Some(Ev::Pending) => Poll::Pending,
                Some(Ev::Fin) | None => Poll::Ready(Ok(None)),
            }
        }
        fn stop_sending(&mut self, _: u64) {}
        fn recv_id(&self) -> StreamId { unimplemented!() }
    }

    #[test]
    fn data_frame_cut_at_a_chunk_boundary_is_not_a_clean_end() {
        let mut buf = BytesMut::new();
        FrameType::DATA.encode(&mut buf);
        VarInt::from(4u32).encode(&mut buf);
        buf.put_slice(b"b"); // 1 of the 4 announced bytes
        let recv = ScriptRecv { script: VecDeque::from(vec![Ev::Chunk(buf.freeze()), Ev::Pending, Ev::Fin]) };
        let mut stream: FrameStream<_, ()> = FrameStream::new(BufRecvStream::new(recv));
        let waker = futures_util::task::noop_waker();
        let mut cx = Context::from_waker(&waker);

        assert!(matches!(stream.poll_next(&mut cx), Poll::Ready(Ok(Some(Frame::Data(PayloadLen(4)))))));
        // transport has nothing more yet: the buffered byte is handed out
        match stream.poll_data(&mut cx) {
            Poll::Ready(Ok(Some(mut d))) => assert_eq!(&d.copy_to_bytes(d.remaining())[..], b"b"),
            other => panic!("unexpected: {:?}", other.map(|r| r.map(|o| o.map(|_| ())))),
        }
        // now the peer finishes the stream, 3 payload bytes short
        let r = stream.poll_data(&mut cx).map(|r| r.map(|o| o.map(|_| ())));
        assert!(
            matches!(r, Poll::Ready(Err(FrameStreamError::UnexpectedEnd))),
            "stream ended inside a DATA payload but poll_data answered {:?}",
            r
        );
    }
}
