// Demonstration for the C02 defect in Frame::decode (appended to h3/src/proto/frame.rs `mod tests` scope by run.sh).
// RFC 9114 §7.1: a frame payload with additional bytes after the identified fields, or that terminates before the end
// of the identified fields, MUST be treated as H3_FRAME_ERROR.
#[cfg(test)]
mod vp_c02_demo {
    use super::*;
    use std::io::Cursor;

    #[test]
    fn goaway_with_trailing_payload_bytes_is_a_frame_error() {
        // GOAWAY (0x07), len 3, payload = varint 0x01 followed by two extra bytes; then a next frame 09 09
        let mut buf = Cursor::new(&[0x07u8, 0x03, 0x01, 0xff, 0xff, 0x09, 0x09][..]);
        let r = Frame::decode(&mut buf);
        assert!(
            matches!(r, Err(FrameError::Malformed) | Err(FrameError::InvalidFrameValue)),
            "over-long GOAWAY accepted: {:?}, {} bytes left (payload bytes would be re-parsed as frames)",
            r.as_ref().map(|_| "Ok(frame)"),
            buf.remaining()
        );
    }

    #[test]
    fn goaway_with_empty_payload_is_a_frame_error_not_incomplete() {
        // GOAWAY, len 0: the whole frame is present, its payload is shorter than the fixed field
        let mut buf = Cursor::new(&[0x07u8, 0x00][..]);
        let r = Frame::decode(&mut buf);
        assert!(
            matches!(r, Err(FrameError::Malformed) | Err(FrameError::InvalidFrameValue)),
            "short GOAWAY answered {:?} (Incomplete is waited on forever on a control stream)",
            r.as_ref().map(|_| "Ok(frame)")
        );
    }

    #[test]
    fn max_push_id_cut_inside_its_varint_is_a_frame_error() {
        // MAX_PUSH_ID (0x0d), len 1, payload = first byte of a 2-byte varint
        let mut buf = Cursor::new(&[0x0du8, 0x01, 0x40][..]);
        let r = Frame::decode(&mut buf);
        assert!(matches!(r, Err(FrameError::Malformed) | Err(FrameError::InvalidFrameValue)), "got {:?}", r.as_ref().map(|_| "Ok(frame)"));
    }

    #[test]
    fn cancel_push_with_trailing_byte_is_a_frame_error() {
        let mut buf = Cursor::new(&[0x03u8, 0x02, 0x05, 0x00][..]);
        let r = Frame::decode(&mut buf);
        assert!(matches!(r, Err(FrameError::Malformed) | Err(FrameError::InvalidFrameValue)), "got {:?}", r.as_ref().map(|_| "Ok(frame)"));
    }

    #[test]
    fn well_formed_fixed_field_frames_still_decode() {
        let mut buf = Cursor::new(&[0x07u8, 0x01, 0x04, 0x0d, 0x02, 0x40, 0x07][..]);
        assert!(matches!(Frame::decode(&mut buf), Ok(Frame::Goaway(v)) if v.into_inner() == 4));
        assert!(matches!(Frame::decode(&mut buf), Ok(Frame::MaxPushId(_))));
        assert_eq!(buf.remaining(), 0);
    }
}
