#!/bin/sh
# usage: run.sh [repo-root] [--unfixed]  — adds c07_stop_then_finish.rs to h3/src/tests of a scratch copy and runs it.
# On the repaired tree it passes.  --unfixed first reverts fix.diff in the scratch copy (the tree as it was pinned): the
# handler's finish() reports a connection error and the connection is closed with H3_INTERNAL_ERROR.
set -e
ROOT="/repo"; UNFIXED=0
for a in "$@"; do case "$a" in --unfixed) UNFIXED=1;; *) ROOT="$a";; esac; done
HERE="$(cd "$(dirname "$0")" && pwd)"
S=$(mktemp -d /tmp/vp-demo-XXXXXX); trap 'rm -rf "$S"' EXIT
rsync -a --exclude target --exclude .git "$ROOT"/ "$S"/
cp "$HERE/c07_stop_then_finish.rs" "$S/h3/src/tests/"
printf 'mod c07_stop_then_finish;\n' >> "$S/h3/src/tests/mod.rs"
if [ "$UNFIXED" = 1 ]; then (cd "$S" && patch -R -p1 -s < "$HERE/fix.diff"); fi
cd "$S" && CARGO_TARGET_DIR=/verif/.cache/demo-target RUST_BACKTRACE=0 cargo test --offline -p h3 --lib -- c07_stop_sending_then_finish --nocapture 2>&1 | grep -E "^test |test result|C07 violated|finish\(\)|connection ended|later request|write after" | head -20
