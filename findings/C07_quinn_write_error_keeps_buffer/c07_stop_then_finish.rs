//! C07: the peer asks to stop sending on ONE request; the handler notices (its write fails with the peer's code) and
//! cleans up with `finish()`.  Nothing of this may close the connection; a later request must complete normally.
//!
//! On the tree before the fix the h3-quinn adapter keeps the unwritten rest of the refused buffer in `writing` after the
//! write error; the next frame h3 hands over on that stream (here: the once-per-connection grease frame that `finish()`
//! writes on the first request) is refused as "send_data called while send stream is not ready", reported as a
//! *connection* error, and the driver closes the connection with H3_INTERNAL_ERROR.
use std::{sync::Arc, time::Duration};

use bytes::{Buf, BufMut, Bytes};
use futures_util::future;
use http::{Request, Response, StatusCode};
use tokio::sync::{mpsc, Notify};

use crate::{
    client,
    error::{Code, ConnectionError, StreamError},
    server,
};

use super::h3_quinn;
use super::Pair;

type ServerStream = server::RequestStream<h3_quinn::BidiStream<Bytes>, Bytes>;

#[derive(Debug)]
enum Outcome {
    Echoed(usize),
    /// (result of the write after STOP_SENDING, result of the finish() that follows)
    Download(Result<(), StreamError>, Result<(), StreamError>),
    Failed(StreamError),
}

fn chunk(seed: u8) -> Bytes {
    Bytes::from((0..4000usize).map(|i| seed ^ (i % 251) as u8).collect::<Vec<u8>>())
}

async fn echo_handler(mut stream: ServerStream) -> Outcome {
    let run = async {
        stream.send_response(Response::builder().status(200).body(()).unwrap()).await?;
        let mut total = 0;
        while let Some(mut c) = stream.recv_data().await? {
            let b = c.copy_to_bytes(c.remaining());
            total += b.len();
            stream.send_data(b).await?;
        }
        stream.finish().await?;
        Ok::<_, StreamError>(total)
    };
    match run.await {
        Ok(n) => Outcome::Echoed(n),
        Err(e) => Outcome::Failed(e),
    }
}

async fn download_handler(mut stream: ServerStream, stop_has_arrived: Arc<Notify>, body_sent: Arc<Notify>) -> Outcome {
    let head = async {
        stream.send_response(Response::builder().status(200).body(()).unwrap()).await?;
        stream.send_data(chunk(1)).await?;
        Ok::<_, StreamError>(())
    };
    if let Err(e) = head.await {
        return Outcome::Failed(e);
    }
    body_sent.notify_one();
    stop_has_arrived.notified().await;
    // the client has lost interest: this write is refused with the client's code ...
    let write = stream.send_data(chunk(2)).await;
    // ... and the handler cleans up the way every example does
    let finish = stream.finish().await;
    Outcome::Download(write, finish)
}

async fn scenario() {
    let mut pair = Pair::default();
    let endpoint = pair.server_inner();
    let stop_has_arrived = Arc::new(Notify::new());
    let body_sent = Arc::new(Notify::new());
    let (tx, mut rx) = mpsc::unbounded_channel::<(String, Outcome)>();

    let (s1, s2) = (stop_has_arrived.clone(), body_sent.clone());
    let server_task = tokio::spawn(async move {
        let conn = h3_quinn::Connection::new(endpoint.accept().await.unwrap().await.unwrap());
        let mut incoming = server::Connection::new(conn).await.unwrap();
        loop {
            let resolver = match incoming.accept().await {
                Ok(Some(r)) => r,
                Ok(None) => panic!("no GOAWAY in this scenario"),
                Err(e) => return e,
            };
            let (tx, s1, s2) = (tx.clone(), s1.clone(), s2.clone());
            tokio::spawn(async move {
                let (req, stream) = match resolver.resolve_request().await {
                    Ok(r) => r,
                    Err(e) => {
                        let _ = tx.send(("?".into(), Outcome::Failed(e)));
                        return;
                    }
                };
                let path = req.uri().path().to_string();
                let out = if path == "/download" { download_handler(stream, s1, s2).await } else { echo_handler(stream).await };
                let _ = tx.send((path, out));
            });
        }
    });

    let (mut driver, mut send_request) = client::new(pair.client().await).await.expect("client init");
    let driver_task = tokio::spawn(async move { future::poll_fn(|cx| driver.poll_close(cx)).await });

    // the first request of the connection: a download the client cancels half way
    let mut download = send_request.send_request(Request::get("http://localhost/download").body(()).unwrap()).await.expect("send_request");
    download.finish().await.expect("finish");
    body_sent.notified().await;
    let resp = download.recv_response().await.expect("recv_response");
    assert_eq!(resp.status(), StatusCode::OK);
    download.stop_sending(Code::H3_REQUEST_CANCELLED);
    tokio::time::sleep(Duration::from_millis(300)).await;
    stop_has_arrived.notify_one();

    let (path, outcome) = rx.recv().await.expect("handler outcome");
    assert_eq!(path, "/download");
    drop(download);

    let mut problems = Vec::new();
    match &outcome {
        Outcome::Download(write, finish) => {
            match write {
                Err(StreamError::RemoteTerminate { code }) if *code == Code::H3_REQUEST_CANCELLED => {}
                other => problems.push(format!("write after STOP_SENDING: expected RemoteTerminate(H3_REQUEST_CANCELLED), got {:?}", other)),
            }
            if let Err(StreamError::ConnectionError(e)) = finish {
                problems.push(format!("finish() after the refused write reported a CONNECTION error: {:?}", e));
            }
        }
        other => problems.push(format!("download handler: {:?}", other)),
    }

    // a request started afterwards completes normally on the same connection
    let late = async {
        let mut s = send_request.send_request(Request::post("http://localhost/echo").body(()).unwrap()).await?;
        s.send_data(chunk(9)).await?;
        s.finish().await?;
        s.recv_response().await?;
        let mut got = Vec::new();
        while let Some(mut c) = s.recv_data().await? {
            got.put(c.copy_to_bytes(c.remaining()));
        }
        Ok::<_, StreamError>(got)
    };
    match tokio::time::timeout(Duration::from_secs(5), late).await {
        Ok(Ok(got)) if got == chunk(9) => {}
        Ok(Ok(_)) => problems.push("later request: echoed bytes differ".into()),
        Ok(Err(e)) => problems.push(format!("later request failed: {:?}", e)),
        Err(_) => problems.push("later request timed out".into()),
    }
    if driver_task.is_finished() {
        problems.push(format!("the client's connection ended: {:?}", driver_task.await.unwrap()));
    }
    if server_task.is_finished() {
        let e: ConnectionError = server_task.await.unwrap();
        problems.push(format!("the server's connection ended: {:?}", e));
    }
    assert!(problems.is_empty(), "C07 violated:\n  {}", problems.join("\n  "));
}

#[tokio::test]
async fn c07_stop_sending_then_finish_stays_on_its_request() {
    tokio::time::timeout(Duration::from_secs(30), scenario()).await.expect("scenario timed out");
}
