// Demonstration for the C19 defect (appended to h3/src/webtransport/session_id.rs by run_demo.sh).
// draft-ietf-webtrans-http3: the session id IS the stream id of the CONNECT request (see the doc comment of SessionId).
#[cfg(test)]
mod vp_c19_demo {
    use super::*;

    #[test]
    fn session_id_of_a_connect_stream_is_its_stream_id() {
        for id in [0u64, 4, 8, 64, 16384] {
            let stream = StreamId::try_from(id).unwrap();
            let session = SessionId::from(stream);
            assert_eq!(session.into_inner(), id, "session id of CONNECT stream {}", id);
            assert_eq!(StreamId::from(session), stream, "the two conversions are inverse");
        }
    }
}
