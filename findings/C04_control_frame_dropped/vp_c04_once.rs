// copy to h3/src/tests/vp_c04_once.rs of a scratch copy, add `mod vp_c04_once;` to h3/src/tests/mod.rs; `cargo test --offline -p h3 --lib vp_c04_once`
//! C04 `[C04.once]`: a control frame taken off the peer's control stream must be acted upon even when the
//! optional grease stream cannot be opened (no unidirectional stream credit left).
use std::collections::VecDeque;
use std::sync::{Arc, Mutex};
use std::task::{Context, Poll};

use bytes::{Buf, Bytes};

use crate::error::Code;
use crate::quic::{self, ConnectionErrorIncoming, StreamErrorIncoming, StreamId, WriteBuf};
use crate::shared_state::ConnectionState;

#[derive(Default)]
struct Log {
    opened_send: usize,
    closed_with: Vec<u64>,
}

/// transport with credit for exactly `credit` outgoing unidirectional streams; the peer's control stream delivers
/// `control` and then stays open and silent
struct MockConn {
    credit: usize,
    control: Option<Vec<Bytes>>,
    log: Arc<Mutex<Log>>,
}
struct MockOpener;
struct MockSend;
struct MockRecv {
    chunks: VecDeque<Bytes>,
}
struct MockBidi;

impl<B: Buf> quic::SendStream<B> for MockSend {
    fn poll_ready(&mut self, _: &mut Context<'_>) -> Poll<Result<(), StreamErrorIncoming>> {
        Poll::Ready(Ok(()))
    }
    fn send_data<T: Into<WriteBuf<B>>>(&mut self, _: T) -> Result<(), StreamErrorIncoming> {
        Ok(())
    }
    fn poll_finish(&mut self, _: &mut Context<'_>) -> Poll<Result<(), StreamErrorIncoming>> {
        Poll::Ready(Ok(()))
    }
    fn reset(&mut self, _: u64) {}
    fn send_id(&self) -> StreamId {
        unimplemented!()
    }
}
impl quic::RecvStream for MockRecv {
    type Buf = Bytes;
    fn poll_data(&mut self, _: &mut Context<'_>) -> Poll<Result<Option<Bytes>, StreamErrorIncoming>> {
        match self.chunks.pop_front() {
            Some(c) => Poll::Ready(Ok(Some(c))),
            None => Poll::Pending, // open, nothing more for now
        }
    }
    fn stop_sending(&mut self, _: u64) {}
    fn recv_id(&self) -> StreamId {
        unimplemented!()
    }
}
impl<B: Buf> quic::SendStream<B> for MockBidi {
    fn poll_ready(&mut self, _: &mut Context<'_>) -> Poll<Result<(), StreamErrorIncoming>> {
        Poll::Pending
    }
    fn send_data<T: Into<WriteBuf<B>>>(&mut self, _: T) -> Result<(), StreamErrorIncoming> {
        Ok(())
    }
    fn poll_finish(&mut self, _: &mut Context<'_>) -> Poll<Result<(), StreamErrorIncoming>> {
        Poll::Pending
    }
    fn reset(&mut self, _: u64) {}
    fn send_id(&self) -> StreamId {
        unimplemented!()
    }
}
impl quic::RecvStream for MockBidi {
    type Buf = Bytes;
    fn poll_data(&mut self, _: &mut Context<'_>) -> Poll<Result<Option<Bytes>, StreamErrorIncoming>> {
        Poll::Pending
    }
    fn stop_sending(&mut self, _: u64) {}
    fn recv_id(&self) -> StreamId {
        unimplemented!()
    }
}
impl<B: Buf> quic::OpenStreams<B> for MockOpener {
    type BidiStream = MockBidi;
    type SendStream = MockSend;
    fn poll_open_bidi(&mut self, _: &mut Context<'_>) -> Poll<Result<MockBidi, StreamErrorIncoming>> {
        Poll::Pending
    }
    fn poll_open_send(&mut self, _: &mut Context<'_>) -> Poll<Result<MockSend, StreamErrorIncoming>> {
        Poll::Pending
    }
    fn close(&mut self, _: Code, _: &[u8]) {}
}
impl<B: Buf> quic::OpenStreams<B> for MockConn {
    type BidiStream = MockBidi;
    type SendStream = MockSend;
    fn poll_open_bidi(&mut self, _: &mut Context<'_>) -> Poll<Result<MockBidi, StreamErrorIncoming>> {
        Poll::Pending
    }
    fn poll_open_send(&mut self, _: &mut Context<'_>) -> Poll<Result<MockSend, StreamErrorIncoming>> {
        if self.credit == 0 {
            // the peer's initial_max_streams_uni is used up: wait for MAX_STREAMS
            return Poll::Pending;
        }
        self.credit -= 1;
        self.log.lock().unwrap().opened_send += 1;
        Poll::Ready(Ok(MockSend))
    }
    fn close(&mut self, code: Code, _: &[u8]) {
        self.log.lock().unwrap().closed_with.push(code.value());
    }
}
impl<B: Buf> quic::Connection<B> for MockConn {
    type RecvStream = MockRecv;
    type OpenStreams = MockOpener;
    fn poll_accept_recv(&mut self, _: &mut Context<'_>) -> Poll<Result<MockRecv, ConnectionErrorIncoming>> {
        match self.control.take() {
            Some(chunks) => Poll::Ready(Ok(MockRecv { chunks: chunks.into() })),
            None => Poll::Pending,
        }
    }
    fn poll_accept_bidi(&mut self, _: &mut Context<'_>) -> Poll<Result<MockBidi, ConnectionErrorIncoming>> {
        Poll::Pending
    }
    fn opener(&self) -> MockOpener {
        MockOpener
    }
}

/// control stream: type 0x00, SETTINGS (0x04) with empty payload, GOAWAY (0x07) with stream id 0
fn control_stream_settings_then_goaway() -> Vec<Bytes> {
    vec![Bytes::from_static(&[0x00, 0x04, 0x00, 0x07, 0x01, 0x00])]
}

fn client_sees_goaway(credit: usize) -> (bool, Log) {
    let log = Arc::new(Mutex::new(Log::default()));
    let conn = MockConn { credit, control: Some(control_stream_settings_then_goaway()), log: log.clone() };
    let (mut driver, _send_request) =
        futures::executor::block_on(crate::client::builder().send_grease(true).build::<_, _, Bytes>(conn)).expect("client builds");
    let mut cx = Context::from_waker(futures_util::task::noop_waker_ref());
    // drive the connection: nothing further will ever arrive, so a handful of polls is every poll
    for _ in 0..5 {
        assert!(driver.poll_close(&mut cx).is_pending());
    }
    let closing = driver.is_closing();
    drop(driver);
    let l = std::mem::take(&mut *log.lock().unwrap());
    (closing, l)
}

#[test]
fn c04_once_goaway_with_credit_for_grease_stream() {
    // control + encoder + decoder + grease
    let (closing, log) = client_sees_goaway(4);
    assert_eq!(log.opened_send, 4);
    assert!(closing, "GOAWAY must put the client into the closing state");
}

#[test]
fn c04_once_goaway_without_credit_for_grease_stream() {
    // control + encoder + decoder only: `poll_open_send` for the grease stream stays Pending
    let (closing, log) = client_sees_goaway(3);
    assert_eq!(log.opened_send, 3);
    assert!(closing, "GOAWAY was read off the control stream and dropped: the client is not closing");
}
