#!/bin/sh
# usage: run.sh [repo-root]  — adds vp_c04_once.rs to h3/src/tests of a scratch copy and runs it
set -e
ROOT="${1:-/repo}"; HERE="$(cd "$(dirname "$0")" && pwd)"
S=$(mktemp -d /tmp/vp-demo-XXXXXX); trap 'rm -rf "$S"' EXIT
rsync -a --exclude target --exclude .git "$ROOT"/ "$S"/
cp "$HERE/vp_c04_once.rs" "$S/h3/src/tests/vp_c04_once.rs"
echo "mod vp_c04_once;" >> "$S/h3/src/tests/mod.rs"
cd "$S" && CARGO_TARGET_DIR=/verif/.cache/demo-target cargo test --offline -p h3 --lib -- vp_c04_once 2>&1 | grep -E "^test |test result|panicked|GOAWAY" | head
