// append to h3/src/stream.rs of a scratch copy; `cargo test --offline -p h3 --lib vp_c04_memo`
#[cfg(test)]
mod vp_c04_memo_tests {
    use super::*;
    use std::collections::VecDeque;
    use std::task::{Context, Poll};

    /// scripted transport stream: the listed chunks, then FIN
    struct ScriptRecv {
        chunks: VecDeque<Bytes>,
    }
    impl RecvStream for ScriptRecv {
        type Buf = Bytes;
        fn poll_data(&mut self, _: &mut Context<'_>) -> Poll<Result<Option<Bytes>, StreamErrorIncoming>> {
            Poll::Ready(Ok(self.chunks.pop_front()))
        }
        fn stop_sending(&mut self, _: u64) {}
        fn recv_id(&self) -> crate::quic::StreamId {
            unimplemented!()
        }
    }
    fn script(chunks: &[&'static [u8]]) -> AcceptRecvStream<ScriptRecv, Bytes> {
        AcceptRecvStream::new(ScriptRecv {
            chunks: chunks.iter().map(|c| Bytes::from_static(c)).collect(),
        })
    }

    // WebTransport uni stream for session 0 with an empty payload: type 0x54 (2-byte varint 40 54), session id 00, FIN.
    #[test]
    fn c04_memo_empty_wt_uni_stream_is_dropped() {
        let mut cx = Context::from_waker(futures_util::task::noop_waker_ref());
        let mut s = script(&[&[0x40, 0x54, 0x00]]);
        match s.poll_type(&mut cx) {
            Poll::Ready(Ok(())) => match s.into_stream() {
                AcceptedRecvStream::WebTransportUni(id, _) => assert_eq!(id.into_inner(), 0),
                _ => panic!("wrong classification"),
            },
            Poll::Ready(Err(PollTypeError::EndOfStream)) => {
                panic!("complete header 40 54 00 + FIN reported as EndOfStream: the stream is dropped")
            }
            Poll::Ready(Err(_)) => panic!("error"),
            Poll::Pending => panic!("pending"),
        }
    }

    // WebTransport uni stream for session 16384 (4-byte varint 80 00 40 00) delivered as 40 54 | 80 00 | 40 00
    #[test]
    fn c04_memo_split_session_id_is_internal_error() {
        let mut cx = Context::from_waker(futures_util::task::noop_waker_ref());
        let mut s = script(&[&[0x40, 0x54], &[0x80, 0x00], &[0x40, 0x00]]);
        match s.poll_type(&mut cx) {
            Poll::Ready(Ok(())) => match s.into_stream() {
                AcceptedRecvStream::WebTransportUni(id, _) => assert_eq!(id.into_inner(), 16384),
                _ => panic!("wrong classification"),
            },
            Poll::Ready(Err(PollTypeError::InternalError(e))) => {
                panic!("connection error {:?} ({}) for a well-formed stream header", e.code, e.message)
            }
            Poll::Ready(Err(_)) => panic!("other error"),
            Poll::Pending => panic!("pending"),
        }
    }
}
