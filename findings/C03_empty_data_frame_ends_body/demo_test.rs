// Demonstration for the C03 defect in RequestStream::poll_recv_data (appended to h3/src/connection.rs by run_demo.sh).
// RFC 9114 §4.1: DATA frames of any length including zero may appear in the body; an empty DATA frame does not end it.
#[cfg(test)]
mod vp_c03_empty_data_demo {
    use super::*;
    use crate::frame::FrameStream;
    use crate::proto::{coding::Encode, frame::FrameType, varint::VarInt};
    use crate::stream::BufRecvStream;
    use bytes::{BufMut, Bytes, BytesMut};
    use std::collections::VecDeque;

    struct ScriptRecv { chunks: VecDeque<Bytes> }
    impl quic::RecvStream for ScriptRecv {
        type Buf = Bytes;
        fn poll_data(&mut self, _: &mut Context<'_>) -> Poll<Result<Option<Bytes>, quic::StreamErrorIncoming>> {
            Poll::Ready(Ok(self.chunks.pop_front()))
        }
        fn stop_sending(&mut self, _: u64) {}
        fn recv_id(&self) -> quic::StreamId { unimplemented!() }
    }

    #[test]
    fn an_empty_data_frame_does_not_end_the_body() {
        let mut buf = BytesMut::new();
        for payload in [&b""[..], &b"body"[..]] {
            FrameType::DATA.encode(&mut buf);
            VarInt::from(payload.len() as u32).encode(&mut buf);
            buf.put_slice(payload);
        }
        let recv = ScriptRecv { chunks: VecDeque::from(vec![buf.freeze()]) };
        let mut rs: RequestStream<_, Bytes> = RequestStream::new(
            FrameStream::new(BufRecvStream::new(recv)), u64::MAX, Arc::new(SharedState::default()), false);
        let waker = futures_util::task::noop_waker();
        let mut cx = Context::from_waker(&waker);

        let mut body = Vec::new();
        loop {
            match rs.poll_recv_data(&mut cx) {
                Poll::Ready(Ok(Some(mut d))) => body.extend_from_slice(&d.copy_to_bytes(d.remaining())),
                Poll::Ready(Ok(None)) => break, // "no more body"
                other => panic!("unexpected: {:?}", other.map(|r| r.map(|o| o.map(|_| ())))),
            }
        }
        assert_eq!(&body[..], b"body", "end-of-body was reported at the empty DATA frame, {} body bytes were never delivered", 4 - body.len());
    }
}
