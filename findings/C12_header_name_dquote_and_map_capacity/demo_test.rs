
// Demonstration for the two C12 / C06 defects of h3/src/proto/headers.rs (appended to that file by run_demo.sh).
// (a) `Header::try_from` calls `HeaderMap::with_capacity(headers.len())`, which PANICS ("size overflows MAX_SIZE") for
//     more than 24576 fields: a 24 579-byte field section (24577 one-byte indexed field lines) sent by the peer takes
//     down the task that resolves the request / response / trailers instead of being refused (the default
//     `max_field_section_size` is unlimited).
// (b) `Field::parse` relies on `HeaderName::from_lowercase`, whose table (http 1.5.0 `HEADER_CHARS_H2`) lets DQUOTE
//     (0x22) through: a field name that is not an RFC 9110 token reaches the application.
#[cfg(test)]
mod vp_c12_demo {
    use super::*;

    fn hf(n: &[u8], v: &[u8]) -> HeaderField {
        (n, v).into()
    }

    #[test]
    fn field_name_with_dquote_is_refused() {
        let r = Header::try_from(vec![
            hf(b":method", b"GET"),
            hf(b":scheme", b"https"),
            hf(b":path", b"/"),
            hf(b":authority", b"a.com"),
            hf(b"a\"b", b"x"),
        ]);
        if let Ok(h) = r {
            let parts = h.into_request_parts();
            assert!(
                parts.is_err(),
                "accepted a field name containing DQUOTE: {:?}",
                parts.map(|(_, _, _, fields)| fields)
            );
        }
        // the neighbours of the gate still behave
        assert!(Header::try_from(vec![hf(b"a-b", b"x")]).is_ok());
        assert!(Header::try_from(vec![hf(b"A-b", b"x")]).is_err());
        assert!(Header::try_from(vec![hf(b"a b", b"x")]).is_err());
    }

    #[test]
    fn field_section_with_24577_fields_is_refused_without_panic() {
        // encoded field section prefix (Required Insert Count 0, Base 0), then 24577 x indexed static entry 17 (":method GET")
        let mut block = vec![0u8, 0u8];
        block.extend(std::iter::repeat(0xC0u8 | 17).take(24577));
        let mut buf = bytes::Bytes::from(block);
        let decoded = crate::qpack::decode_stateless(&mut buf, (1u64 << 62) - 1).expect("QPACK refused the section");
        assert_eq!(decoded.fields.len(), 24577);
        let r = std::panic::catch_unwind(move || Header::try_from(decoded.fields).is_ok());
        match r {
            Err(_) => panic!("Header::try_from panicked on a 24579-byte field section (got a panic instead of an error)"),
            Ok(accepted) => assert!(!accepted, "accepted 24577 fields"),
        }
        // the largest section a HeaderMap can be sized for is still accepted
        assert!(Header::try_from(vec![hf(b"a", b""); 24576]).is_ok());
    }
}
