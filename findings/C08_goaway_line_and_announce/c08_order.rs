// C08 on a scripted transport: request streams delivered out of stream-id order (the quic traits promise no order;
// the accept loop itself says "some acceptable request streams arrive after rejected requests").
use std::collections::VecDeque;
use std::sync::{Arc, Mutex};
use std::task::{Context, Poll};

use bytes::{Buf, Bytes};

use crate::proto::stream::StreamId;
use crate::quic::{self, ConnectionErrorIncoming, StreamErrorIncoming, WriteBuf};
use crate::server;

#[derive(Default)]
struct Wire {
    // bytes written per send stream, in order of opening (0 = control)
    sent: Vec<Vec<u8>>,
    resets: Vec<(u64, u64)>,
}

struct MockSend {
    idx: usize,
    id: u64,
    wire: Arc<Mutex<Wire>>,
}
impl quic::SendStream<Bytes> for MockSend {
    fn poll_ready(&mut self, _: &mut Context<'_>) -> Poll<Result<(), StreamErrorIncoming>> {
        Poll::Ready(Ok(()))
    }
    fn send_data<T: Into<WriteBuf<Bytes>>>(&mut self, data: T) -> Result<(), StreamErrorIncoming> {
        let mut wb: WriteBuf<Bytes> = data.into();
        let mut w = self.wire.lock().unwrap();
        while wb.has_remaining() {
            let n = wb.chunk().len();
            w.sent[self.idx].extend_from_slice(wb.chunk());
            wb.advance(n);
        }
        Ok(())
    }
    fn poll_finish(&mut self, _: &mut Context<'_>) -> Poll<Result<(), StreamErrorIncoming>> {
        Poll::Ready(Ok(()))
    }
    fn reset(&mut self, code: u64) {
        self.wire.lock().unwrap().resets.push((self.id, code));
    }
    fn send_id(&self) -> StreamId {
        StreamId(self.id)
    }
}
struct MockRecv {
    id: u64,
}
impl quic::RecvStream for MockRecv {
    type Buf = Bytes;
    fn poll_data(&mut self, _: &mut Context<'_>) -> Poll<Result<Option<Bytes>, StreamErrorIncoming>> {
        Poll::Pending
    }
    fn stop_sending(&mut self, _: u64) {}
    fn recv_id(&self) -> StreamId {
        StreamId(self.id)
    }
}
struct MockBidi {
    send: MockSend,
    recv: MockRecv,
}
impl quic::SendStream<Bytes> for MockBidi {
    fn poll_ready(&mut self, cx: &mut Context<'_>) -> Poll<Result<(), StreamErrorIncoming>> {
        self.send.poll_ready(cx)
    }
    fn send_data<T: Into<WriteBuf<Bytes>>>(&mut self, data: T) -> Result<(), StreamErrorIncoming> {
        self.send.send_data(data)
    }
    fn poll_finish(&mut self, cx: &mut Context<'_>) -> Poll<Result<(), StreamErrorIncoming>> {
        self.send.poll_finish(cx)
    }
    fn reset(&mut self, code: u64) {
        self.send.reset(code)
    }
    fn send_id(&self) -> StreamId {
        self.send.send_id()
    }
}
impl quic::RecvStream for MockBidi {
    type Buf = Bytes;
    fn poll_data(&mut self, cx: &mut Context<'_>) -> Poll<Result<Option<Bytes>, StreamErrorIncoming>> {
        self.recv.poll_data(cx)
    }
    fn stop_sending(&mut self, c: u64) {
        self.recv.stop_sending(c)
    }
    fn recv_id(&self) -> StreamId {
        self.recv.recv_id()
    }
}
impl quic::BidiStream<Bytes> for MockBidi {
    type SendStream = MockSend;
    type RecvStream = MockRecv;
    fn split(self) -> (MockSend, MockRecv) {
        (self.send, self.recv)
    }
}

struct MockConn {
    wire: Arc<Mutex<Wire>>,
    incoming: VecDeque<u64>, // ids of the request streams, in order of *delivery*
}
impl MockConn {
    fn open_send(&mut self) -> MockSend {
        let mut w = self.wire.lock().unwrap();
        w.sent.push(Vec::new());
        let idx = w.sent.len() - 1;
        MockSend { idx, id: (idx as u64) * 4 + 3, wire: self.wire.clone() }
    }
}
impl quic::OpenStreams<Bytes> for MockConn {
    type BidiStream = MockBidi;
    type SendStream = MockSend;
    fn poll_open_bidi(&mut self, _: &mut Context<'_>) -> Poll<Result<MockBidi, StreamErrorIncoming>> {
        Poll::Pending
    }
    fn poll_open_send(&mut self, _: &mut Context<'_>) -> Poll<Result<MockSend, StreamErrorIncoming>> {
        Poll::Ready(Ok(self.open_send()))
    }
    fn close(&mut self, _: crate::error::Code, _: &[u8]) {}
}
impl quic::Connection<Bytes> for MockConn {
    type RecvStream = MockRecv;
    type OpenStreams = MockConn;
    fn poll_accept_recv(&mut self, _: &mut Context<'_>) -> Poll<Result<MockRecv, ConnectionErrorIncoming>> {
        Poll::Pending
    }
    fn poll_accept_bidi(&mut self, _: &mut Context<'_>) -> Poll<Result<MockBidi, ConnectionErrorIncoming>> {
        match self.incoming.pop_front() {
            Some(id) => {
                self.wire.lock().unwrap().sent.push(Vec::new());
                let idx = self.wire.lock().unwrap().sent.len() - 1;
                Poll::Ready(Ok(MockBidi {
                    send: MockSend { idx, id, wire: self.wire.clone() },
                    recv: MockRecv { id },
                }))
            }
            None => Poll::Pending,
        }
    }
    fn opener(&self) -> MockConn {
        MockConn { wire: self.wire.clone(), incoming: VecDeque::new() }
    }
}

fn varint(b: &[u8]) -> Option<(u64, usize)> {
    let first = *b.first()?;
    let len = 1usize << (first >> 6);
    if b.len() < len {
        return None;
    }
    let mut v = (first & 0x3f) as u64;
    for x in &b[1..len] {
        v = (v << 8) | *x as u64;
    }
    Some((v, len))
}
// GOAWAY identifiers on the control stream (reference parser)
fn goaways(ctrl: &[u8]) -> Vec<u64> {
    let mut out = vec![];
    let (ty, mut pos) = varint(ctrl).unwrap();
    assert_eq!(ty, 0, "first send stream is the control stream");
    while let Some((ty, n1)) = varint(&ctrl[pos..]) {
        let (len, n2) = varint(&ctrl[pos + n1..]).unwrap();
        let start = pos + n1 + n2;
        if ty == 0x7 {
            out.push(varint(&ctrl[start..start + len as usize]).unwrap().0);
        }
        pos = start + len as usize;
    }
    out
}

#[tokio::test]
async fn c08_out_of_order_arrival_then_shutdown() {
    let wire = Arc::new(Mutex::new(Wire::default()));
    // the client opened streams 0 and 4; the transport delivers 4 first
    let conn = MockConn { wire: wire.clone(), incoming: VecDeque::from(vec![4, 0]) };
    let mut incoming = server::Connection::new(conn).await.unwrap();
    let a = incoming.accept().await.unwrap().unwrap();
    let b = incoming.accept().await.unwrap().unwrap();
    let handed_out = vec![a.frame_stream.id().into_inner(), b.frame_stream.id().into_inner()];
    incoming.shutdown(0).await.unwrap();
    let g = goaways(&wire.lock().unwrap().sent[0]);
    eprintln!("handed to the application: {:?}; GOAWAY ids on the wire: {:?}", handed_out, g);
    assert_eq!(g.len(), 1);
    for id in &handed_out {
        assert!(*id < g[0], "GOAWAY({}) announces stream {} as not processed, but it was handed to the application", g[0], id);
    }
}
