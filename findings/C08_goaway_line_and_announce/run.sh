#!/bin/sh
# usage: run.sh [repo-root] [--fixed]  — adds c08_goaway.rs / c08_order.rs to h3/src/tests of a scratch copy and runs them.
# Without --fixed: the pinned behaviour (all three tests fail).  With --fixed: fix.diff is applied first (all pass).
set -e
ROOT="/repo"; FIXED=0
for a in "$@"; do case "$a" in --fixed) FIXED=1;; *) ROOT="$a";; esac; done
HERE="$(cd "$(dirname "$0")" && pwd)"
S=$(mktemp -d /tmp/vp-demo-XXXXXX); trap 'rm -rf "$S"' EXIT
rsync -a --exclude target --exclude .git "$ROOT"/ "$S"/
cp "$HERE/c08_goaway.rs" "$HERE/c08_order.rs" "$S/h3/src/tests/"
printf 'mod c08_goaway;\nmod c08_order;\n' >> "$S/h3/src/tests/mod.rs"
if [ "$FIXED" = 1 ]; then (cd "$S" && patch -p1 -s < "$HERE/fix.diff"); fi
cd "$S" && CARGO_TARGET_DIR=/verif/.cache/demo-target RUST_BACKTRACE=0 cargo test --offline -p h3 --lib -- c08_ --nocapture 2>&1 | grep -E "^test |test result|GOAWAY|handed" | head -20
