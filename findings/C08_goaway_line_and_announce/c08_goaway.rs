// Focused scenarios for C08 (GOAWAY identifiers), real quinn loopback; run with ./run.sh [repo-root].
// Each assertion is the property statement; they fail on the pinned tree.
use std::time::Duration;

use bytes::{Buf, Bytes, BytesMut};
use http::{request, Request, Response, StatusCode};

use crate::error::Code;
use crate::proto::{
    coding::Encode as _,
    frame::{Frame, Settings},
    headers::Header,
    stream::StreamType,
};
use crate::{qpack, server};

use super::{init_tracing, Pair};

fn request_bytes() -> BytesMut {
    let req = Request::get("http://no.way").body(()).unwrap();
    let (parts, _) = req.into_parts();
    let request::Parts { method, uri, headers, extensions, .. } = parts;
    let headers = Header::request(method, uri, headers, extensions).unwrap();
    let mut block = BytesMut::new();
    qpack::encode_stateless(&mut block, headers).unwrap();
    let mut buf = BytesMut::new();
    Frame::headers(block).encode_with_payload(&mut buf);
    buf
}

// reference varint reader (RFC 9000 §16), independent of h3's
fn varint(b: &[u8]) -> Option<(u64, usize)> {
    let first = *b.first()?;
    let len = 1usize << (first >> 6);
    if b.len() < len {
        return None;
    }
    let mut v = (first & 0x3f) as u64;
    for x in &b[1..len] {
        v = (v << 8) | *x as u64;
    }
    Some((v, len))
}

// Reads the server's control stream and reports the identifier of every GOAWAY frame on it.
async fn watch_goaways(conn: quinn::Connection, tx: tokio::sync::mpsc::UnboundedSender<u64>) {
    loop {
        let mut recv = match conn.accept_uni().await {
            Ok(r) => r,
            Err(_) => return,
        };
        let tx = tx.clone();
        tokio::spawn(async move {
            let mut buf: Vec<u8> = Vec::new();
            let mut pos = 0usize;
            let mut is_control: Option<bool> = None;
            loop {
                // parse what is there
                loop {
                    if is_control.is_none() {
                        match varint(&buf[pos..]) {
                            Some((ty, n)) => {
                                pos += n;
                                is_control = Some(ty == 0);
                            }
                            None => break,
                        }
                    }
                    if is_control == Some(false) {
                        return;
                    }
                    let Some((ty, n1)) = varint(&buf[pos..]) else { break };
                    let Some((len, n2)) = varint(&buf[pos + n1..]) else { break };
                    let start = pos + n1 + n2;
                    if buf.len() < start + len as usize {
                        break;
                    }
                    if ty == 0x7 {
                        let (id, _) = varint(&buf[start..start + len as usize]).unwrap();
                        let _ = tx.send(id);
                    }
                    pos = start + len as usize;
                }
                match recv.read_chunk(usize::MAX, true).await {
                    Ok(Some(c)) => buf.extend_from_slice(&c.bytes),
                    _ => return,
                }
            }
        });
    }
}

#[derive(Debug, PartialEq, Clone, Copy)]
enum Outcome {
    Served,
    Reset(u64),
    Other,
}

async fn one_request(conn: &quinn::Connection) -> (u64, Outcome) {
    let (mut send, mut recv) = match conn.open_bi().await {
        Ok(x) => x,
        Err(_) => return (u64::MAX, Outcome::Other), // connection already closed
    };
    let id = send.id().index() * 4; // client-initiated bidirectional
    let _ = send.write_all(&request_bytes()[..]).await;
    let _ = send.finish();
    let out = match recv.read_to_end(1 << 16).await {
        Ok(b) if !b.is_empty() => Outcome::Served,
        Ok(_) => Outcome::Other,
        Err(quinn::ReadToEndError::Read(quinn::ReadError::Reset(code))) => Outcome::Reset(code.into_inner()),
        Err(_) => Outcome::Other,
    };
    (id, out)
}

async fn respond<S, B>(mut stream: server::RequestStream<S, B>)
where
    S: crate::quic::RecvStream + crate::quic::SendStream<B>,
    B: Buf,
{
    stream
        .send_response(Response::builder().status(StatusCode::OK).body(()).unwrap())
        .await
        .unwrap();
    stream.finish().await.unwrap();
}

/// history: request 0 arrives and is served; the server calls `shutdown(n)`; after the client has *seen* the GOAWAY
/// it sends two more requests (4, 8).  Returns (GOAWAY ids seen on the wire, ids handed to the application,
/// what the client observed per stream).
async fn c08_history(n: usize) -> (Vec<u64>, Vec<u64>, Vec<(u64, Outcome)>) {
    init_tracing();
    let mut pair = Pair::default();
    let mut server = pair.server();
    let (go_tx, mut go_rx) = tokio::sync::mpsc::unbounded_channel::<u64>();

    let client_fut = async {
        let conn = pair.client_inner().await;
        let mut control = conn.open_uni().await.unwrap();
        let mut buf = BytesMut::new();
        StreamType::CONTROL.encode(&mut buf);
        Frame::<Bytes>::Settings(Settings::default()).encode(&mut buf);
        control.write_all(&buf[..]).await.unwrap();
        tokio::spawn(watch_goaways(conn.clone(), go_tx));

        let mut outcomes = vec![one_request(&conn).await];
        // wait until the GOAWAY is on the wire and read
        let mut goaways = vec![go_rx.recv().await.expect("a GOAWAY")];
        for _ in 0..2 {
            outcomes.push(one_request(&conn).await);
        }
        tokio::time::sleep(Duration::from_millis(200)).await;
        while let Ok(g) = go_rx.try_recv() {
            goaways.push(g);
        }
        drop(control);
        (goaways, outcomes)
    };

    let server_fut = async {
        let conn = server.next().await;
        let mut incoming = server::Connection::new(conn).await.unwrap();
        let mut handed_out = Vec::new();
        let resolver = incoming.accept().await.unwrap().unwrap();
        let (_, stream) = resolver.resolve_request().await.unwrap();
        handed_out.push(stream.send_id().into_inner());
        respond(stream).await;
        incoming.shutdown(n).await.unwrap();
        loop {
            match tokio::time::timeout(Duration::from_millis(600), incoming.accept()).await {
                Ok(Ok(Some(resolver))) => {
                    let (_, stream) = resolver.resolve_request().await.unwrap();
                    handed_out.push(stream.send_id().into_inner());
                    respond(stream).await;
                }
                _ => break,
            }
        }
        // the application is done with the connection
        tokio::time::sleep(Duration::from_millis(300)).await;
        drop(incoming);
        handed_out
    };

    let (handed_out, (goaways, outcomes)) = tokio::join!(server_fut, client_fut);
    (goaways, handed_out, outcomes)
}

fn c08_check(goaways: &[u64], handed_out: &[u64], outcomes: &[(u64, Outcome)]) {
    eprintln!("GOAWAY ids on the wire: {:?}; handed to the application: {:?}; client saw: {:?}", goaways, handed_out, outcomes);
    // identifiers never increase
    assert!(goaways.windows(2).all(|w| w[0] >= w[1]), "GOAWAY ids increase: {:?}", goaways);
    let last = *goaways.last().unwrap();
    for (id, out) in outcomes {
        if *id >= last {
            // "every request whose stream ID is greater than or equal to the last identifier sent is rejected
            //  with H3_REQUEST_REJECTED and never shown to the application"
            assert!(!handed_out.contains(id), "stream {} was handed to the application although GOAWAY({}) was sent", id, last);
            assert_ne!(*out, Outcome::Served, "stream {} >= GOAWAY({}) was served", id, last);
            if let Outcome::Reset(code) = out {
                assert_eq!(*code, Code::H3_REQUEST_REJECTED.value(), "stream {} >= GOAWAY({})", id, last);
            }
        } else {
            // "and every request below it is still served"
            assert_eq!(*out, Outcome::Served, "stream {} < GOAWAY({})", id, last);
        }
    }
    // what was handed out lies below every identifier sent
    for g in goaways {
        for id in handed_out {
            assert!(id < g, "GOAWAY({}) announces stream {} as not processed, but it was handed to the application", g, id);
        }
    }
}

#[tokio::test]
async fn c08_shutdown_0_boundary() {
    let (g, h, o) = c08_history(0).await;
    c08_check(&g, &h, &o);
}

#[tokio::test]
async fn c08_shutdown_1_boundary() {
    let (g, h, o) = c08_history(1).await;
    c08_check(&g, &h, &o);
}

