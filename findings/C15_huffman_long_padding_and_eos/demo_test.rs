// Demonstration for the C15 KNOWN FINDING "padding of eight or more bits and the EOS symbol are accepted"
// (appended to h3/src/qpack/prefix_string/mod.rs by run_demo.sh:
//   /verif/findings/run_demo.sh /verif/findings/C15_huffman_long_padding_and_eos h3/src/qpack/prefix_string/mod.rs vp_c15_huff_long_padding <repo-root>).
// RFC 7541 §5.2: "A padding strictly longer than 7 bits MUST be treated as a decoding error.  ...  A Huffman-encoded
// string literal containing the EOS symbol MUST be treated as a decoding error."  Not fixed: the repository's own tests
// `test_decode_single_value` (a whole 0xff octet after every code whose length is a multiple of 8) and
// `test_decode_all_code_joined` (a complete EOS at the end) require the decoder to accept exactly this.
// Obligations C15.huff.eof.len, C15.huff.eof.eos (Kani harnesses c15_huff_eof_padding_too_long,
// c15_huff_eof_eos_rejected).  These tests fail on the pinned tree and with every committed fix.
#[cfg(test)]
mod vp_c15_huff_long_padding {
    use super::*;
    use std::io::Cursor;

    fn huff(payload: &[u8]) -> Result<Vec<u8>, Error> {
        let mut wire = vec![0x80 | payload.len() as u8];
        wire.extend_from_slice(payload);
        decode(8, &mut Cursor::new(&wire))
    }

    #[test]
    fn eleven_bits_of_padding_are_refused() {
        // '0' = 00000, three one-bits, then a whole 0xff octet
        let r = huff(&[0x07, 0xff]);
        assert!(r.is_err(), "07 ff accepted as {:?}", r);
    }

    #[test]
    fn a_whole_octet_of_padding_is_refused() {
        let r = huff(&[0xff]);
        assert!(r.is_err(), "ff accepted as {:?}", r);
        // '&' = 11111000 is complete after one octet; a second octet of ones is 8 bits of padding
        let r = huff(&[0xf8, 0xff]);
        assert!(r.is_err(), "f8 ff accepted as {:?}", r);
    }

    #[test]
    fn the_eos_symbol_is_refused() {
        // thirty one-bits = EOS, then two bits of padding
        let r = huff(&[0xff, 0xff, 0xff, 0xff]);
        assert!(r.is_err(), "ff ff ff ff (EOS) accepted as {:?}", r);
        // '0', then EOS, then padding
        let r = huff(&[0x07, 0xff, 0xff, 0xff, 0xff]);
        assert!(r.is_err(), "07 ff ff ff ff ('0' + EOS) accepted as {:?}", r);
    }
}
