//! vp-extract: mechanical, text-preserving extraction of items from /repo into a Verus unit file.
//!
//! usage: vp-extract <template.rs.in> <repo_root> <out.rs> <out.meta.json>
//!
//! The template is a Verus file.  Lines outside `//@extract … //@end` blocks are copied verbatim.
//! An `//@extract <file> :: <container> :: <item> [#n]` block is replaced by the *source text* of that
//! item sliced from <repo_root>/<file> by syn span, after the fixed rewrite rules (DESIGN §3.2) and
//! with the ghost text of the block (contracts, invariants, proof hints) spliced in.
//!
//! exit 0 = ok, 3 = anchor lost / unsupported construct / parse failure (caller reports *undecided*).

use proc_macro2::Span;
use std::collections::BTreeMap;
use std::fmt::Write as _;
use std::ops::Range;
use syn::spanned::Spanned;
use syn::visit::Visit;

mod rewrite;

#[derive(Debug, Clone)]
pub struct At {
    pub anchor: String,
    pub occurrence: i64,
    pub before: bool,
    pub up: usize,
    pub text: String,
}

#[derive(Default, Debug, Clone)]
pub struct Dir {
    pub file: String,
    pub container: String,
    pub item: String,
    pub ordinal: usize,
    pub tline: usize,
    pub tags: Vec<String>,
    pub sig: String,
    pub loops: BTreeMap<usize, String>,
    pub loop_iters: BTreeMap<usize, String>, // `//@loop N name`: Verus ghost-iterator name for a `for` loop (R26)
    pub ats: Vec<At>,
    pub entry: String,
    pub attrs: Vec<String>,
    pub qconv: Vec<String>,
    pub kinds: Vec<(String, usize, String)>,
    pub substs: Vec<(String, String)>,
    pub off: Vec<String>,
    pub on: Vec<String>,
    pub tysubst: Vec<(String, String)>,
    pub rename: Option<String>,
    pub ghost_fields: Vec<String>,
    pub derive_default: Option<String>,
    pub ghost_inits: Vec<(Vec<String>, String)>, // `//@ghost-init A|Self field: expr`: extra field in every literal of A (R28)
    pub external_body: bool,
    pub novis: bool,
    pub dropgenerics: bool,
    pub ret: Option<String>,
    pub fold: Option<(String, String)>,
    pub assumed_from: Option<String>,
}

thread_local! {
    pub static GONE_LOOPS: std::cell::RefCell<Vec<String>> = std::cell::RefCell::new(Vec::new());
    pub static LOST_HINTS: std::cell::RefCell<Vec<String>> = std::cell::RefCell::new(Vec::new());
}

pub fn die(kind: &str, detail: &str) -> ! {
    println!("VP-EXTRACT-ERROR: {}: {}", kind, detail);
    std::process::exit(3);
}

pub fn br(s: Span) -> Range<usize> {
    s.byte_range()
}

fn norm(s: &str) -> String {
    s.chars().filter(|c| !c.is_whitespace()).collect()
}

fn unquote(s: &str) -> String {
    // "..." with \" \\ \n escapes
    let s = s.trim();
    if !(s.starts_with('"') && s.ends_with('"') && s.len() >= 2) {
        die("template", &format!("expected quoted string, got {}", s));
    }
    let inner = &s[1..s.len() - 1];
    let mut out = String::new();
    let mut it = inner.chars();
    while let Some(c) = it.next() {
        if c == '\\' {
            match it.next() {
                Some('n') => out.push('\n'),
                Some('"') => out.push('"'),
                Some('\\') => out.push('\\'),
                Some(o) => {
                    out.push('\\');
                    out.push(o)
                }
                None => out.push('\\'),
            }
        } else {
            out.push(c)
        }
    }
    out
}

/// split `"a" => "b"` at the top-level `=>` between two quoted strings
fn split_arrow(s: &str) -> (String, String) {
    // find `" => "` boundary: scan quoted string
    let s = s.trim();
    let bytes = s.as_bytes();
    if bytes.first() != Some(&b'"') {
        die("template", &format!("subst needs quoted strings: {}", s));
    }
    let mut i = 1;
    while i < bytes.len() {
        if bytes[i] == b'\\' {
            i += 2;
            continue;
        }
        if bytes[i] == b'"' {
            break;
        }
        i += 1;
    }
    let a = &s[..=i];
    let rest = s[i + 1..].trim();
    let rest = rest.strip_prefix("=>").unwrap_or_else(|| die("template", "subst needs =>")).trim();
    (unquote(a), unquote(rest))
}

enum Sec {
    None,
    Sig,
    Loop(usize),
    At(usize),
    Entry,
}

fn parse_template(t: &str) -> Vec<Result<String, Dir>> {
    let mut out: Vec<Result<String, Dir>> = Vec::new();
    let mut defines: Vec<String> = Vec::new();
    let mut cur: Option<Dir> = None;
    let mut sec = Sec::None;
    let mut skip_depth: usize = 0; // > 0 while inside a false //@ifdef / //@ifndef block
    for (ln, line) in t.lines().enumerate() {
        let tl = line.trim_start();
        if let Some(rest) = tl.strip_prefix("//@") {
            let r = rest.trim_end();
            let (k0, a0) = match r.find(char::is_whitespace) {
                Some(i) => (&r[..i], r[i..].trim()),
                None => (r, ""),
            };
            if k0 == "ifdef" || k0 == "ifndef" {
                let defined = defines.iter().any(|x| x == a0);
                let take = if k0 == "ifdef" { defined } else { !defined };
                if skip_depth > 0 || !take {
                    skip_depth += 1;
                }
                continue;
            }
            if k0 == "endif" {
                if skip_depth > 0 {
                    skip_depth -= 1;
                }
                continue;
            }
        }
        if skip_depth > 0 {
            continue;
        }
        if let Some(rest) = tl.strip_prefix("//@") {
            let rest = rest.trim_end();
            let (kw, arg) = match rest.find(char::is_whitespace) {
                Some(i) => (&rest[..i], rest[i..].trim()),
                None => (rest, ""),
            };
            if kw == "define" {
                defines.push(arg.to_string());
                continue;
            }
            if kw == "census" && cur.is_none() {
                // handled in main (needs the repository root): passed through as a marked line
                out.push(Ok(format!("//@census {}", arg)));
                continue;
            }
            if kw == "extract" {
                if cur.is_some() {
                    die("template", &format!("line {}: nested //@extract", ln + 1));
                }
                let mut parts: Vec<&str> = arg.split("::").map(|s| s.trim()).collect();
                if parts.len() < 3 {
                    die("template", &format!("line {}: //@extract file :: container :: item", ln + 1));
                }
                // container / item may themselves contain `::` (paths): file is first, item is last
                let file = parts.remove(0).to_string();
                let mut item = parts.pop().unwrap().to_string();
                let container = parts.join("::");
                let mut ordinal = 1;
                if let Some(i) = item.rfind('#') {
                    if let Ok(n) = item[i + 1..].trim().parse::<usize>() {
                        ordinal = n;
                        item = item[..i].trim().to_string();
                    }
                }
                let mut d = Dir::default();
                d.file = file;
                d.container = container;
                d.item = item;
                d.ordinal = ordinal;
                d.tline = ln + 1;
                cur = Some(d);
                sec = Sec::None;
                continue;
            }
            let d = match cur.as_mut() {
                Some(d) => d,
                None => die("template", &format!("line {}: //@{} outside //@extract", ln + 1, kw)),
            };
            match kw {
                "end" => {
                    out.push(Err(cur.take().unwrap()));
                    sec = Sec::None;
                }
                "tag" => d.tags.extend(arg.split_whitespace().map(|s| s.to_string())),
                "sig" => sec = Sec::Sig,
                "entry" => sec = Sec::Entry,
                "loop" => {
                    let mut parts = arg.split_whitespace();
                    let n: usize = parts.next().unwrap_or("").parse().unwrap_or_else(|_| die("template", "loop N [ghost-iterator-name]"));
                    if let Some(name) = parts.next() {
                        d.loop_iters.insert(n, name.to_string());
                    }
                    d.loops.insert(n, String::new());
                    sec = Sec::Loop(n);
                }
                "at" => {
                    // at "anchor" [#k] before|after
                    let mut arg = arg.to_string();
                    let mut up = 0usize;
                    if let Some(i) = arg.rfind('^') {
                        if let Ok(n) = arg[i + 1..].trim().parse::<usize>() {
                            up = n;
                            arg = arg[..i].trim().to_string();
                        }
                    }
                    let arg = arg.as_str();
                    let before = arg.ends_with("before");
                    let after = arg.ends_with("after");
                    if !before && !after {
                        die("template", &format!("line {}: at \"..\" before|after", ln + 1));
                    }
                    let a = arg[..arg.len() - if before { 6 } else { 5 }].trim();
                    let (a, occ) = match a.rfind("\" #") {
                        // `#*` = every occurrence (occurrence 0)
                        Some(i) => (&a[..=i], if a[i + 3..].trim() == "*" { 0 } else { a[i + 3..].trim().parse::<i64>().unwrap_or(1) }),
                        None => (a, 1),
                    };
                    d.ats.push(At { anchor: unquote(a), occurrence: occ, before, up, text: String::new() });
                    sec = Sec::At(d.ats.len() - 1);
                }
                "attr" => d.attrs.push(arg.to_string()),
                "qconv" => d.qconv.extend(arg.split_whitespace().map(|s| s.to_string())),
                "kind" => {
                    // kind map_err#2 pollres
                    let mut it = arg.split_whitespace();
                    let m = it.next().unwrap_or("");
                    let k = it.next().unwrap_or_else(|| die("template", "kind method#n kind"));
                    let (m, n) = match m.find('#') {
                        Some(i) => (&m[..i], m[i + 1..].parse::<usize>().unwrap_or(0)),
                        None => (m, 0),
                    };
                    d.kinds.push((m.to_string(), n, k.to_string()));
                }
                "subst" => d.substs.push(split_arrow(arg)),
                "off" => d.off.extend(arg.split_whitespace().map(|s| s.to_string())),
                "on" => d.on.extend(arg.split_whitespace().map(|s| s.to_string())),
                "tysubst" => {
                    let mut it = arg.splitn(2, "=>");
                    let a = it.next().unwrap().trim().to_string();
                    let b = it.next().unwrap_or_else(|| die("template", "tysubst A => B")).trim().to_string();
                    d.tysubst.push((a, b));
                }
                "rename" => d.rename = Some(arg.to_string()),
                "ghost-field" => d.ghost_fields.push(arg.to_string()),
                "derive-default" => d.derive_default = Some(arg.to_string()),
                "ghost-init" => {
                    let (names, init) = arg.split_once(' ').unwrap_or_else(|| die("template", "ghost-init Type[|Self] field: expr"));
                    d.ghost_inits.push((names.split('|').map(|x| x.to_string()).collect(), init.trim().to_string()));
                }
                "external_body" => d.external_body = true,
                "external_body_if" => {
                    // contract sharing between units: the unit that *verifies* the function includes the block as is,
                    // a unit that only *relies on its contract* puts `//@define NAME` first
                    if defines.iter().any(|x| x == arg) {
                        d.external_body = true;
                        d.attrs.push("#[verifier::external_body]".to_string());
                        d.assumed_from = Some(arg.to_string());
                    }
                }
                "novis" => d.novis = true,
                "ret" => d.ret = Some(arg.to_string()),
                "dropgenerics" => d.dropgenerics = true,
                "fold" => d.fold = Some(split_arrow(arg)),
                _ => die("template", &format!("line {}: unknown directive //@{}", ln + 1, kw)),
            }
            continue;
        }
        match cur.as_mut() {
            None => out.push(Ok(line.to_string())),
            Some(d) => {
                let tgt: &mut String = match sec {
                    Sec::Sig => &mut d.sig,
                    Sec::Entry => &mut d.entry,
                    Sec::Loop(n) => d.loops.get_mut(&n).unwrap(),
                    Sec::At(i) => &mut d.ats[i].text,
                    Sec::None => {
                        if line.trim().is_empty() {
                            continue;
                        }
                        die("template", &format!("line {}: text outside a section in //@extract", ln + 1))
                    }
                };
                tgt.push_str(line);
                tgt.push('\n');
            }
        }
    }
    if cur.is_some() {
        die("template", "unterminated //@extract");
    }
    out
}

// ---------------------------------------------------------------------------------------------
// locating items

pub struct Located {
    pub range: Range<usize>, // bytes of the item incl. attrs
    pub kind: &'static str,  // fn | struct | enum | const | type | impl_header | trait_header
    pub in_trait_impl: bool,
    pub in_trait: bool,
}

fn impl_matches(i: &syn::ItemImpl, want: &str) -> bool {
    // want: "impl X" or "impl T for X" (normalised)
    let w = norm(want);
    let w = w.strip_prefix("impl").unwrap_or(&w);
    let selfty = norm(&quote::ToTokens::to_token_stream(&*i.self_ty).to_string());
    let full = match &i.trait_ {
        Some((_, p, _)) => format!("{}for{}", norm(&quote::ToTokens::to_token_stream(p).to_string()), selfty),
        None => selfty,
    };
    // "for" glue is ambiguous with idents containing "for"; compare exactly
    let w2 = {
        // split want on " for " before normalising
        let ws = want.trim().strip_prefix("impl").unwrap_or(want).trim();
        match ws.find(" for ") {
            Some(k) => format!("{}for{}", norm(&ws[..k]), norm(&ws[k + 5..])),
            None => norm(ws),
        }
    };
    let _ = w;
    full == w2
}

fn attrs_start(attrs: &[syn::Attribute], dflt: usize) -> usize {
    attrs.iter().map(|a| br(a.span()).start).min().map(|m| m.min(dflt)).unwrap_or(dflt)
}

fn locate(file: &syn::File, d: &Dir) -> Located {
    let (ikind, iname) = match d.item.split_once(char::is_whitespace) {
        Some((a, b)) => (a.trim(), b.trim()),
        None => (d.item.as_str(), ""),
    };
    let mut found: Vec<Located> = Vec::new();
    let cont = d.container.trim();
    fn top_items<'a>(file: &'a syn::File, modpath: &str) -> Vec<&'a syn::Item> {
        if modpath.is_empty() {
            return file.items.iter().collect();
        }
        let mut items: Vec<&syn::Item> = file.items.iter().collect();
        for seg in modpath.split('.') {
            let mut next = None;
            for it in &items {
                if let syn::Item::Mod(m) = it {
                    if m.ident == seg {
                        if let Some((_, its)) = &m.content {
                            next = Some(its.iter().collect::<Vec<_>>());
                        }
                    }
                }
            }
            items = next.unwrap_or_default();
        }
        items
    }
    // container forms: "-" | "mod a.b" | "impl …" | "trait X"
    if cont == "-" || cont.starts_with("mod ") {
        let mp = if cont == "-" { "" } else { cont[4..].trim() };
        for it in top_items(file, mp) {
            let (k, name, range): (&'static str, String, Range<usize>) = match it {
                syn::Item::Fn(f) => ("fn", f.sig.ident.to_string(), attrs_start(&f.attrs, br(f.span()).start)..br(f.span()).end),
                syn::Item::Struct(s) => ("struct", s.ident.to_string(), attrs_start(&s.attrs, br(s.span()).start)..br(s.span()).end),
                syn::Item::Enum(s) => ("enum", s.ident.to_string(), attrs_start(&s.attrs, br(s.span()).start)..br(s.span()).end),
                syn::Item::Const(s) => ("const", s.ident.to_string(), attrs_start(&s.attrs, br(s.span()).start)..br(s.span()).end),
                syn::Item::Static(s) => ("static", s.ident.to_string(), attrs_start(&s.attrs, br(s.span()).start)..br(s.span()).end),
                syn::Item::Type(s) => ("type", s.ident.to_string(), attrs_start(&s.attrs, br(s.span()).start)..br(s.span()).end),
                syn::Item::Macro(m) => (
                    "macro",
                    m.ident.as_ref().map(|i| i.to_string()).unwrap_or_default(),
                    attrs_start(&m.attrs, br(m.span()).start)..br(m.span()).end,
                ),
                _ => continue,
            };
            if k == ikind && name == iname {
                found.push(Located { range, kind: k, in_trait_impl: false, in_trait: false });
            }
        }
        if found.is_empty() && ikind == "struct" {
            // structs declared inside `pin_project! { … }` (pin-project-lite): the macro re-emits the struct as
            // written (plus projection types), so the text inside the macro is the definition
            for it in top_items(file, mp) {
                if let syn::Item::Macro(m) = it {
                    if m.mac.path.segments.last().map(|s| s.ident == "pin_project").unwrap_or(false) {
                        if let Ok(inner) = syn::parse2::<syn::File>(m.mac.tokens.clone()) {
                            for ii in &inner.items {
                                if let syn::Item::Struct(st) = ii {
                                    if st.ident == iname {
                                        found.push(Located {
                                            range: attrs_start(&st.attrs, br(st.span()).start)..br(st.span()).end,
                                            kind: "struct",
                                            in_trait_impl: false,
                                            in_trait: false,
                                        });
                                    }
                                }
                            }
                        }
                    }
                }
            }
        }
    } else if cont.starts_with("trait ") {
        let tname = cont[6..].trim();
        for it in &file.items {
            if let syn::Item::Trait(t) = it {
                if t.ident == tname {
                    for ti in &t.items {
                        if let syn::TraitItem::Fn(f) = ti {
                            if ikind == "fn" && f.sig.ident == iname {
                                found.push(Located {
                                    range: attrs_start(&f.attrs, br(f.span()).start)..br(f.span()).end,
                                    kind: "fn",
                                    in_trait_impl: false,
                                    in_trait: true,
                                });
                            }
                        }
                    }
                }
            }
        }
    } else if cont.starts_with("impl") {
        let mut all: Vec<&syn::Item> = file.items.iter().collect();
        // also search inline modules one level deep
        for it in &file.items {
            if let syn::Item::Mod(m) = it {
                if let Some((_, its)) = &m.content {
                    if !m.attrs.iter().any(|a| norm(&quote::ToTokens::to_token_stream(a).to_string()).contains("cfg(test)")) {
                        all.extend(its.iter());
                    }
                }
            }
        }
        for it in all {
            if let syn::Item::Impl(i) = it {
                if !impl_matches(i, cont) {
                    continue;
                }
                for ii in &i.items {
                    match ii {
                        syn::ImplItem::Fn(f) if ikind == "fn" && f.sig.ident == iname => {
                            found.push(Located {
                                range: attrs_start(&f.attrs, br(f.span()).start)..br(f.span()).end,
                                kind: "fn",
                                in_trait_impl: i.trait_.is_some(),
                                in_trait: false,
                            });
                        }
                        syn::ImplItem::Const(c) if ikind == "const" && c.ident == iname => {
                            found.push(Located {
                                range: attrs_start(&c.attrs, br(c.span()).start)..br(c.span()).end,
                                kind: "const",
                                in_trait_impl: i.trait_.is_some(),
                                in_trait: false,
                            });
                        }
                        _ => {}
                    }
                }
            }
        }
    } else {
        die("template", &format!("line {}: bad container `{}`", d.tline, cont));
    }
    if ikind == "fieldfold" {
        // R24: a fold over the named fields of a struct (see process_fieldfold)
        for it in &file.items {
            if let syn::Item::Struct(s) = it {
                if s.ident == iname {
                    return Located {
                        range: attrs_start(&s.attrs, br(s.span()).start)..br(s.span()).end,
                        kind: "fieldfold",
                        in_trait_impl: false,
                        in_trait: false,
                    };
                }
            }
        }
        die("anchor-lost", &format!("{}: struct {} not found", d.file, iname));
    }
    if ikind == "constmacro" {
        // R23: a const-table macro invocation `name! { … }` + its macro_rules definition
        let mut def: Option<Range<usize>> = None;
        let mut call: Option<Range<usize>> = None;
        for it in &file.items {
            if let syn::Item::Macro(m) = it {
                let r = attrs_start(&m.attrs, br(m.span()).start)..br(m.span()).end;
                if m.ident.as_ref().map(|i| i == iname).unwrap_or(false) {
                    def = Some(r);
                } else if m.mac.path.is_ident(iname) {
                    call = Some(r);
                }
            }
        }
        match (def, call) {
            (Some(dr), Some(cr)) => {
                return Located { range: dr.start.min(cr.start)..dr.end.max(cr.end), kind: "constmacro", in_trait_impl: false, in_trait: false };
            }
            _ => die("anchor-lost", &format!("{}: macro {} (definition + invocation) not found", d.file, iname)),
        }
    }
    if found.len() < d.ordinal {
        die(
            "anchor-lost",
            &format!("{} :: {} :: {} #{} not found ({} candidates)", d.file, d.container, d.item, d.ordinal, found.len()),
        );
    }
    found.swap_remove(d.ordinal - 1)
}

// ---------------------------------------------------------------------------------------------

fn line_of(src: &str, byte: usize) -> usize {
    src[..byte.min(src.len())].bytes().filter(|b| *b == b'\n').count() + 1
}

fn apply_edits(text: &str, mut edits: Vec<(Range<usize>, String)>) -> String {
    edits.sort_by(|a, b| b.0.start.cmp(&a.0.start).then(b.0.end.cmp(&a.0.end)));
    let mut t = text.to_string();
    let mut last_start = usize::MAX;
    for (r, s) in edits {
        if r.end > last_start {
            die("internal", "overlapping edits");
        }
        t.replace_range(r.clone(), &s);
        last_start = r.start;
    }
    t
}

struct StructOut {
    text: String,
    rules: BTreeMap<String, usize>,
}

fn attr_is(a: &syn::Attribute, what: &str) -> bool {
    norm(&quote::ToTokens::to_token_stream(a).to_string()) == norm(what)
}

fn process_adt(src: &str, d: &Dir) -> StructOut {
    // src = item text incl. attrs
    let mut rules = BTreeMap::new();
    // R0 on a type definition (e.g. a `dyn A + B` payload Verus cannot take => an opaque shim type):
    // each substitution must match exactly once and is counted/listed like the ones on functions
    let mut src_owned = src.to_string();
    for (a, b) in &d.substs {
        let n = src_owned.matches(a.as_str()).count();
        if n != 1 {
            die("anchor-lost", &format!("{}: subst text occurs {} times: {:?}", d.item, n, a));
        }
        src_owned = src_owned.replacen(a.as_str(), b, 1);
        *rules.entry("R0".to_string()).or_insert(0) += 1;
    }
    let src: &str = &src_owned;
    let item: syn::Item = syn::parse_str(src).unwrap_or_else(|e| die("parse-failure", &format!("{}: {}", d.item, e)));
    let mut edits: Vec<(Range<usize>, String)> = Vec::new();
    let mut bump = |k: &str, n: usize| {
        if n > 0 {
            *rules.entry(k.to_string()).or_insert(0) += n
        }
    };
    let strip_attrs = |attrs: &[syn::Attribute], edits: &mut Vec<(Range<usize>, String)>| -> usize {
        for a in attrs {
            edits.push((br(a.span()), String::new()));
        }
        attrs.len()
    };
    let mut handle_fields = |fields: &syn::Fields, edits: &mut Vec<(Range<usize>, String)>, make_pub: bool| -> (usize, usize, usize) {
        let (mut r1, mut r2, mut r14) = (0, 0, 0);
        let list: Vec<&syn::Field> = fields.iter().collect();
        for (k, f) in list.iter().enumerate() {
            if f.attrs.iter().any(|a| attr_is(a, "#[cfg(test)]")) {
                // drop the whole field incl. trailing comma
                let start = attrs_start(&f.attrs, br(f.span()).start);
                let mut end = br(f.span()).end;
                if k + 1 < list.len() {
                    // up to the start of the next field
                    end = attrs_start(&list[k + 1].attrs, br(list[k + 1].span()).start);
                }
                edits.push((start..end, String::new()));
                r2 += 1;
                continue;
            }
            r1 += strip_attrs(&f.attrs, edits);
            if make_pub {
                match &f.vis {
                    syn::Visibility::Inherited => {
                        let at = match &f.ident {
                            Some(i) => br(i.span()).start,
                            None => br(f.ty.span()).start,
                        };
                        edits.push((at..at, "pub ".to_string()));
                        r14 += 1;
                    }
                    syn::Visibility::Public(_) => {}
                    v => {
                        edits.push((br(v.span()), "pub".to_string()));
                        r14 += 1;
                    }
                }
            }
        }
        (r1, r2, r14)
    };
    let head_start;
    match &item {
        syn::Item::Struct(s) => {
            bump("R1", strip_attrs(&s.attrs, &mut edits));
            head_start = br(s.struct_token.span()).start;
            let vs = br(s.vis.span());
            if !matches!(s.vis, syn::Visibility::Inherited) {
                edits.push((vs, String::new()));
            }
            let (a, b, c) = handle_fields(&s.fields, &mut edits, true);
            bump("R1", a);
            bump("R2", b);
            bump("R14", c);
            if !d.ghost_fields.is_empty() {
                if let syn::Fields::Named(n) = &s.fields {
                    let close = br(n.brace_token.span.close()).start;
                    let mut t = String::new();
                    // make sure previous field is comma terminated
                    if !n.named.empty_or_trailing() {
                        t.push_str(",\n");
                    }
                    for g in &d.ghost_fields {
                        let _ = writeln!(t, "    pub {},", g.trim_end_matches(','));
                    }
                    edits.push((close..close, t));
                } else {
                    die("unsupported", "ghost-field on non-named struct");
                }
            }
        }
        syn::Item::Enum(e) => {
            bump("R1", strip_attrs(&e.attrs, &mut edits));
            head_start = br(e.enum_token.span()).start;
            if !matches!(e.vis, syn::Visibility::Inherited) {
                edits.push((br(e.vis.span()), String::new()));
            }
            for v in &e.variants {
                bump("R1", strip_attrs(&v.attrs, &mut edits));
                let (a, b, _) = handle_fields(&v.fields, &mut edits, false);
                bump("R1", a);
                bump("R2", b);
            }
        }
        syn::Item::Const(c) => {
            bump("R1", strip_attrs(&c.attrs, &mut edits));
            head_start = br(c.const_token.span()).start;
            if !matches!(c.vis, syn::Visibility::Inherited) {
                edits.push((br(c.vis.span()), String::new()));
            }
        }
        syn::Item::Static(c) => {
            bump("R1", strip_attrs(&c.attrs, &mut edits));
            head_start = br(c.static_token.span()).start;
            if !matches!(c.vis, syn::Visibility::Inherited) {
                edits.push((br(c.vis.span()), String::new()));
            }
        }
        syn::Item::Type(c) => {
            bump("R1", strip_attrs(&c.attrs, &mut edits));
            head_start = br(c.type_token.span()).start;
            if !matches!(c.vis, syn::Visibility::Inherited) {
                edits.push((br(c.vis.span()), String::new()));
            }
        }
        _ => die("unsupported", &format!("item kind of {}", d.item)),
    }
    let _ = &mut bump;
    // everything before the keyword (attributes, comments, visibility) is cut
    let edits: Vec<(Range<usize>, String)> = edits.into_iter().filter(|(r, _)| r.start >= head_start).collect();
    let t = apply_edits(src, edits);
    let pos = head_start;
    let mut text = String::new();
    for a in &d.attrs {
        text.push_str(a);
        text.push('\n');
    }
    if !d.novis {
        text.push_str("pub ");
    }
    text.push_str(&t[pos..]);
    // drop blank lines left by removed attributes
    let mut text: String = text.lines().filter(|l| !l.trim().is_empty()).map(|l| format!("{}\n", l)).collect();
    // R27: `#[derive(Default)]` (stripped with the other attributes) rendered as what the language defines it to be:
    // `impl Default` building every field from its own `Default::default()`; the postcondition comes from the template.
    // Dies (anchor lost) when the struct in /repo no longer derives Default.
    if let Some(ens) = &d.derive_default {
        if let syn::Item::Struct(st) = &item {
            let derives_default = st.attrs.iter().any(|a| {
                let t = norm(&quote::ToTokens::to_token_stream(a).to_string());
                t.starts_with("#[derive(") && t[9..].trim_end_matches(")]").split(',').any(|x| x == "Default")
            });
            if !derives_default {
                die("anchor-lost", &format!("{}: no #[derive(Default)] on the struct any more", d.item));
            }
            let fields: Vec<String> = match &st.fields {
                syn::Fields::Named(n) => n.named.iter().filter(|f| !f.attrs.iter().any(|a| attr_is(a, "#[cfg(test)]"))).map(|f| f.ident.as_ref().unwrap().to_string()).collect(),
                _ => die("unsupported", "derive-default on a non-named struct"),
            };
            if !st.generics.params.is_empty() {
                die("unsupported", "derive-default on a generic struct");
            }
            let name = st.ident.to_string();
            let _ = writeln!(text, "impl Default for {} {{\n    fn default() -> (r: Self)\n        ensures {}\n    {{ {} {{ {} }} }}\n}}", name, ens.trim_end_matches(','),
                name, fields.iter().map(|f| format!("{}: Default::default()", f)).collect::<Vec<_>>().join(", "));
            *rules.entry("R27".to_string()).or_insert(0) += 1;
        } else {
            die("unsupported", "derive-default on a non-struct");
        }
    }
    StructOut { text, rules }
}

/// R23: expand a const-table macro (`frame_types!`, `stream_types!`, `setting_identifiers!`, `codes!`)
/// exactly as its macro_rules definition says; the definition's shape is checked, not assumed.
fn process_constmacro(src: &str, d: &Dir) -> StructOut {
    let name = d.item.split_whitespace().nth(1).unwrap_or("");
    let f: syn::File = syn::parse_str(src).unwrap_or_else(|e| die("parse-failure", &format!("{}: {}", d.item, e)));
    let mut def_txt = String::new();
    let mut call_tokens: Option<proc_macro2::TokenStream> = None;
    for it in &f.items {
        if let syn::Item::Macro(m) = it {
            if m.ident.as_ref().map(|i| i == name).unwrap_or(false) {
                def_txt = norm(&m.mac.tokens.to_string());
            } else if m.mac.path.is_ident(name) {
                call_tokens = Some(m.mac.tokens.clone());
            }
        }
    }
    let call = call_tokens.unwrap_or_else(|| die("anchor-lost", &format!("{}: invocation not found", d.item)));
    let mut out = String::new();
    let mut n = 0;
    // shape (a): {$($name:ident = $val:expr,)*} => { impl T { $(pub const $name: T = T($val);)* } }
    let shape_a = {
        let pre = "{$($name:ident=$val:expr,)*}=>{impl";
        if def_txt.starts_with(pre) {
            let rest = &def_txt[pre.len()..];
            rest.find('{').and_then(|i| {
                let ty = rest[..i].to_string();
                let want = format!("{{$(pubconst$name:{t}={t}($val);)*}}}}", t = ty);
                if rest[i..] == want { Some(ty) } else { None }
            })
        } else {
            None
        }
    };
    // shape (b): codes! — the `impl Code { pub const $name: Code = Code{code: $num}; }` part (Debug/Display impls follow, not extracted)
    let shape_b = def_txt.starts_with("($($(#[$docs:meta])*($num:expr,$name:ident);)+)=>{implCode{$($(#[$docs])*pubconst$name:Code=Code{code:$num};)+}impl");
    if let Some(ty) = shape_a {
        let toks: Vec<proc_macro2::TokenTree> = call.into_iter().collect();
        let mut i = 0;
        while i < toks.len() {
            // NAME = expr-tokens ,
            let nm = match &toks[i] {
                proc_macro2::TokenTree::Ident(id) => id.to_string(),
                t => die("unsupported", &format!("{}: unexpected token {}", d.item, t)),
            };
            i += 1;
            match toks.get(i) {
                Some(proc_macro2::TokenTree::Punct(p)) if p.as_char() == '=' => {}
                _ => die("unsupported", &format!("{}: expected `=`", d.item)),
            }
            i += 1;
            let mut val = String::new();
            while i < toks.len() {
                if let proc_macro2::TokenTree::Punct(p) = &toks[i] {
                    if p.as_char() == ',' {
                        break;
                    }
                }
                let r = br(toks[i].span());
                let _ = r;
                val.push_str(&toks[i].to_string());
                i += 1;
            }
            i += 1; // comma
            let _ = writeln!(out, "    pub const {}: {} = {}({});", nm, ty, ty, val);
            n += 1;
        }
    } else if shape_b {
        let toks: Vec<proc_macro2::TokenTree> = call.into_iter().collect();
        for t in toks {
            if let proc_macro2::TokenTree::Group(g) = &t {
                if g.delimiter() == proc_macro2::Delimiter::Parenthesis {
                    let inner: Vec<proc_macro2::TokenTree> = g.stream().into_iter().collect();
                    // num , NAME
                    let mut num = String::new();
                    let mut k = 0;
                    while k < inner.len() {
                        if let proc_macro2::TokenTree::Punct(p) = &inner[k] {
                            if p.as_char() == ',' {
                                break;
                            }
                        }
                        num.push_str(&inner[k].to_string());
                        k += 1;
                    }
                    let nm = inner.get(k + 1).map(|t| t.to_string()).unwrap_or_else(|| die("unsupported", "codes! entry"));
                    let _ = writeln!(out, "    pub const {}: Code = Code {{ code: {} }};", nm, num);
                    n += 1;
                }
            }
        }
    } else {
        die("anchor-lost", &format!("{}: macro_rules definition has an unexpected shape: {}", d.item, def_txt));
    }
    if n == 0 {
        die("anchor-lost", &format!("{}: no entries", d.item));
    }
    let mut rules = BTreeMap::new();
    rules.insert("R23".to_string(), n);
    StructOut { text: out, rules }
}

/// R24: `//@extract f :: - :: fieldfold S` + `//@fold "INIT" => "STEP"` emits INIT followed by STEP for every
/// named field of struct S as it is in the repository today (`{}` in STEP is the field name; `#[cfg(test)]`
/// fields are skipped as in R2).  Used to derive, mechanically from the real struct definition, spec functions
/// that are a union over the fields (what a value owns), so that they follow the struct when it changes.
fn process_fieldfold(src: &str, d: &Dir) -> StructOut {
    let item: syn::ItemStruct = syn::parse_str(src).unwrap_or_else(|e| die("parse-failure", &format!("{}: {}", d.item, e)));
    let (init, step) = d.fold.clone().unwrap_or_else(|| die("template", &format!("{}: fieldfold needs //@fold \"init\" => \"step\"", d.item)));
    let mut out = String::new();
    let mut n = 0;
    let _ = writeln!(out, "        {}", init);
    match &item.fields {
        syn::Fields::Named(nf) => {
            for f in &nf.named {
                if f.attrs.iter().any(|a| attr_is(a, "#[cfg(test)]")) {
                    continue;
                }
                let name = f.ident.as_ref().unwrap().to_string();
                let _ = writeln!(out, "        {}", step.replace("{}", &name));
                n += 1;
            }
        }
        _ => die("unsupported", &format!("{}: fieldfold on a struct without named fields", d.item)),
    }
    let mut rules = BTreeMap::new();
    rules.insert("R24".to_string(), n);
    StructOut { text: out, rules }
}

/// text of an impl-item const inside an impl: `const X: T = e;`
fn process_assoc_const(src: &str, d: &Dir) -> StructOut {
    let mut rules = BTreeMap::new();
    // R0 on an associated const (e.g. a shift Verus cannot evaluate in a const item): same rule as for type definitions
    let mut src_owned = src.to_string();
    for (a, b) in &d.substs {
        let n = src_owned.matches(a.as_str()).count();
        if n != 1 {
            die("anchor-lost", &format!("{}: subst text occurs {} times: {:?}", d.item, n, a));
        }
        src_owned = src_owned.replacen(a.as_str(), b, 1);
        *rules.entry("R0".to_string()).or_insert(0) += 1;
    }
    let src: &str = &src_owned;
    let c: syn::ImplItemConst = syn::parse_str(src).unwrap_or_else(|e| die("parse-failure", &format!("{}: {}", d.item, e)));
    let start = br(c.const_token.span()).start;
    if !c.attrs.is_empty() {
        rules.insert("R1".to_string(), c.attrs.len());
    }
    let mut text = String::new();
    if !d.novis {
        text.push_str("pub ");
    }
    text.push_str(&src[start..]);
    text.push('\n');
    StructOut { text, rules }
}

// ---------------------------------------------------------------------------------------------

struct LoopFinder {
    braces: Vec<(usize, usize)>, // (loop start, body open brace)
    for_exprs: Vec<(usize, usize)>, // (loop start, start of the iterator expression) for `for` loops
}
impl<'ast> Visit<'ast> for LoopFinder {
    fn visit_expr_while(&mut self, n: &'ast syn::ExprWhile) {
        self.braces.push((br(n.while_token.span()).start, br(n.body.brace_token.span.open()).start));
        syn::visit::visit_expr_while(self, n);
    }
    fn visit_expr_loop(&mut self, n: &'ast syn::ExprLoop) {
        self.braces.push((br(n.loop_token.span()).start, br(n.body.brace_token.span.open()).start));
        syn::visit::visit_expr_loop(self, n);
    }
    fn visit_expr_for_loop(&mut self, n: &'ast syn::ExprForLoop) {
        self.braces.push((br(n.for_token.span()).start, br(n.body.brace_token.span.open()).start));
        self.for_exprs.push((br(n.for_token.span()).start, br(n.expr.span()).start));
        syn::visit::visit_expr_for_loop(self, n);
    }
}

struct LitFinder {
    names: Vec<String>,
    closes: Vec<(usize, bool)>,
}
impl<'ast> Visit<'ast> for LitFinder {
    fn visit_expr_struct(&mut self, e: &'ast syn::ExprStruct) {
        let last = e.path.segments.last().map(|s| s.ident.to_string()).unwrap_or_default();
        if self.names.iter().any(|n| *n == last) && e.rest.is_none() {
            self.closes.push((br(e.brace_token.span.close()).start, e.fields.empty_or_trailing()));
        }
        syn::visit::visit_expr_struct(self, e);
    }
}

struct StmtFinder {
    pos: usize,
    all: Vec<Range<usize>>,
}
impl<'ast> Visit<'ast> for StmtFinder {
    fn visit_block(&mut self, b: &'ast syn::Block) {
        for s in &b.stmts {
            let r = br(s.span());
            if r.start <= self.pos && self.pos < r.end {
                self.all.push(r);
            }
        }
        syn::visit::visit_block(self, b);
    }
}

struct FnOut {
    text: String,
    rules: BTreeMap<String, usize>,
    name: String,
}

fn process_fn(src_with_attrs: &str, d: &Dir, loc: &Located) -> FnOut {
    let mut rules: BTreeMap<String, usize> = BTreeMap::new();
    // 1. cut attributes and visibility (R1, R6)
    let (mut text, had_body) = {
        if loc.in_trait {
            let f: syn::TraitItemFn =
                syn::parse_str(src_with_attrs).unwrap_or_else(|e| die("parse-failure", &format!("{}: {}", d.item, e)));
            if !f.attrs.is_empty() {
                rules.insert("R1".into(), f.attrs.len());
            }
            let start = sig_start(&f.sig);
            (src_with_attrs[start..].to_string(), f.default.is_some())
        } else {
            let f: syn::ImplItemFn =
                syn::parse_str(src_with_attrs).unwrap_or_else(|e| die("parse-failure", &format!("{}: {}", d.item, e)));
            if !f.attrs.is_empty() {
                rules.insert("R1".into(), f.attrs.len());
            }
            let start = sig_start(&f.sig);
            (src_with_attrs[start..].to_string(), true)
        }
    };
    if !had_body {
        die("unsupported", &format!("{} has no body", d.item));
    }
    // 2. unit-specific textual substitutions (R0) — each must match exactly once; when the exact text is not there the
    //    match is retried with all white space ignored (rustfmt re-flowing a method chain is not a lost anchor)
    for (a, b) in &d.substs {
        let n = text.matches(a.as_str()).count();
        if n == 1 {
            text = text.replacen(a.as_str(), b, 1);
        } else if n == 0 {
            match find_ignoring_space(&text, a) {
                Ok(r) => text.replace_range(r, b),
                Err(k) => die("anchor-lost", &format!("{}: subst text occurs {} times ({} ignoring white space): {:?}", d.item, n, k, a)),
            }
        } else {
            die("anchor-lost", &format!("{}: subst text occurs {} times: {:?}", d.item, n, a));
        }
        *rules.entry("R0".into()).or_insert(0) += 1;
    }
    // 3. rewrite rules to fixpoint
    if !d.external_body {
        text = rewrite::run(&text, d, &mut rules);
    }
    // 4. splice ghost text
    let f: syn::ImplItemFn = syn::parse_str(&text).unwrap_or_else(|e| {
        die("parse-failure", &format!("{} after rewriting: {}\n{}", d.item, e, text))
    });
    let name = d.rename.clone().unwrap_or_else(|| f.sig.ident.to_string());
    let mut edits: Vec<(Range<usize>, String)> = Vec::new();
    if let Some(r) = &d.rename {
        edits.push((br(f.sig.ident.span()), r.clone()));
    }
    let open = br(f.block.brace_token.span.open());
    if let Some(rn) = &d.ret {
        match &f.sig.output {
            syn::ReturnType::Type(_, ty) => {
                let r = br(ty.span());
                edits.push((r.start..r.start, format!("({}: ", rn)));
                edits.push((r.end..r.end, ")".to_string()));
            }
            syn::ReturnType::Default => die("anchor-lost", &format!("{}: //@ret on a function without return type", d.item)),
        }
    }
    if d.external_body {
        // keep the signature, drop the body
        let close = br(f.block.brace_token.span.close());
        edits.push((open.end..close.start, " unimplemented!() ".to_string()));
        edits.push((open.start..open.start, format!("\n{}", d.sig)));
        *rules.entry("R8".into()).or_insert(0) += 1;
    } else {
        let mut ins = String::new();
        if !d.sig.trim().is_empty() {
            ins.push('\n');
            ins.push_str(&d.sig);
        }
        edits.push((open.start..open.start, ins));
        let mut entry = String::new();
        if !d.entry.trim().is_empty() {
            entry.push_str(&format!("\n{}", d.entry));
        }
        if std::env::var("VP_CANARY").is_ok() {
            // after the entry text: `hide(..)` headers must stay first in the body
            entry.push_str("\n proof { assert(false); } // [CANARY]\n");
        }
        if !entry.is_empty() {
            edits.push((open.end..open.end, entry));
        }
        // R28: a struct that carries a ghost field in its unit (`//@ghost-field`) is built by literals in /repo that
        // cannot know the field: the template's initialiser is appended to every such literal of this function
        for (names, init) in &d.ghost_inits {
            let mut lf = LitFinder { names: names.clone(), closes: vec![] };
            lf.visit_impl_item_fn(&f);
            for (close, trailing) in lf.closes {
                edits.push((close..close, format!("{} {} ", if trailing { "" } else { "," }, init)));
                *rules.entry("R28".into()).or_insert(0) += 1;
            }
        }
        let mut lf = LoopFinder { braces: vec![], for_exprs: vec![] };
        lf.visit_impl_item_fn(&f);
        lf.braces.sort();
        for (k, t) in &d.loops {
            if *k == 0 || *k > lf.braces.len() {
                // the loop the invariant was written for no longer exists: the invariant is moot, the function's
                // remaining obligations stand on their own (recorded, not fatal)
                GONE_LOOPS.with(|l| l.borrow_mut().push(format!("{}: loop {}", d.item, k)));
                continue;
            }
            let at = lf.braces[*k - 1].1;
            edits.push((at..at, format!("\n{}", t)));
            // R26: `for P in IT` -> `for P in name: IT` (Verus' syntax for naming the ghost iterator of a for loop)
            if let Some(name) = d.loop_iters.get(k) {
                let start = lf.braces[*k - 1].0;
                match lf.for_exprs.iter().find(|(s, _)| *s == start) {
                    Some((_, e)) => {
                        edits.push((*e..*e, format!("{}: ", name)));
                        *rules.entry("R26".into()).or_insert(0) += 1;
                    }
                    None => die("anchor-lost", &format!("{}: loop {} is not a `for` loop, cannot name its iterator", d.item, k)),
                }
            }
        }
        for a in &d.ats {
            let mut positions: Vec<usize> = vec![];
            if a.occurrence == 0 {
                // every occurrence
                let mut from = 0;
                while let Some(p) = text[from..].find(a.anchor.as_str()) {
                    positions.push(from + p);
                    from = from + p + 1;
                }
            } else if a.occurrence < 0 {
                // counted from the end: -1 = last occurrence
                let mut pos = None;
                let mut upto = text.len();
                for _ in 0..(-a.occurrence) {
                    match text[..upto].rfind(a.anchor.as_str()) {
                        Some(p) => {
                            pos = Some(p);
                            upto = p;
                        }
                        None => {
                            pos = None;
                            break;
                        }
                    }
                }
                positions.extend(pos);
            } else {
                let mut pos = None;
                let mut from = 0;
                for _ in 0..a.occurrence {
                    match text[from..].find(a.anchor.as_str()) {
                        Some(p) => {
                            pos = Some(from + p);
                            from = from + p + 1;
                        }
                        None => {
                            pos = None;
                            break;
                        }
                    }
                }
                positions.extend(pos);
            }
            if positions.is_empty() && !text.contains(a.anchor.as_str()) {
                // the exact text is nowhere: retry with white space ignored (a re-flowed statement is not a lost anchor)
                let hits = all_ignoring_space(&text, &a.anchor);
                if a.occurrence == 0 {
                    positions = hits;
                } else if a.occurrence > 0 {
                    positions.extend(hits.get(a.occurrence as usize - 1).copied());
                } else if hits.len() >= (-a.occurrence) as usize {
                    positions.push(hits[hits.len() - (-a.occurrence) as usize]);
                }
            }
            if positions.is_empty() {
                // a lost *hint* anchor does not stop the run: the hint is dropped and recorded; the caller
                // treats a proof that then fails in this function as undecided, not as a violation
                LOST_HINTS.with(|l| l.borrow_mut().push(format!("{}: anchor {:?} #{}", d.item, a.anchor, a.occurrence)));
                continue;
            }
            for pos in positions {
                let mut sf = StmtFinder { pos, all: vec![] };
                sf.visit_impl_item_fn(&f);
                sf.all.sort_by_key(|r| r.end - r.start);
                if sf.all.len() <= a.up {
                    die("anchor-lost", &format!("{}: no statement (level {}) at anchor {:?}", d.item, a.up, a.anchor));
                }
                let r = sf.all[a.up].clone();
                if a.before {
                    edits.push((r.start..r.start, format!("{}\n", a.text)));
                } else {
                    edits.push((r.end..r.end, format!("\n{}", a.text)));
                }
            }
        }
    }
    let body = apply_edits(&text, edits);
    let mut out = String::new();
    for a in &d.attrs {
        out.push_str(a);
        out.push('\n');
    }
    if !(loc.in_trait_impl || loc.in_trait || d.novis) {
        out.push_str("pub ");
    }
    out.push_str(&body);
    out.push('\n');
    FnOut { text: out, rules, name }
}

fn sig_start(sig: &syn::Signature) -> usize {
    let mut s = br(sig.fn_token.span()).start;
    if let Some(t) = &sig.constness {
        s = s.min(br(t.span()).start)
    }
    if let Some(t) = &sig.asyncness {
        s = s.min(br(t.span()).start)
    }
    if let Some(t) = &sig.unsafety {
        s = s.min(br(t.span()).start)
    }
    if let Some(t) = &sig.abi {
        s = s.min(br(t.span()).start)
    }
    s
}

fn load_with_includes(path: &str, depth: usize) -> String {
    if depth > 8 {
        die("template", "include depth");
    }
    let t = std::fs::read_to_string(path).unwrap_or_else(|e| die("template", &format!("{}: {}", path, e)));
    let dir = std::path::Path::new(path).parent().map(|p| p.to_path_buf()).unwrap_or_default();
    let mut out = String::new();
    for line in t.lines() {
        if let Some(rest) = line.trim_start().strip_prefix("//@include ") {
            let p = dir.join(rest.trim());
            let _ = writeln!(out, "// ---- include {}", rest.trim());
            out.push_str(&load_with_includes(p.to_str().unwrap(), depth + 1));
            let _ = writeln!(out, "// ---- end include {}", rest.trim());
        } else {
            out.push_str(line);
            out.push('\n');
        }
    }
    out
}

fn json_str(s: &str) -> String {
    serde_json::to_string(s).unwrap()
}

/// the byte range of the single occurrence of `pat` in `text` when white space is ignored on both sides; Err(count) otherwise
fn find_ignoring_space(text: &str, pat: &str) -> Result<Range<usize>, usize> {
    let p: Vec<u8> = pat.bytes().filter(|b| !b.is_ascii_whitespace()).collect();
    if p.is_empty() {
        return Err(0);
    }
    let mut idx: Vec<usize> = Vec::new();
    let mut t: Vec<u8> = Vec::new();
    for (i, b) in text.bytes().enumerate() {
        if !b.is_ascii_whitespace() {
            idx.push(i);
            t.push(b);
        }
    }
    let mut hits: Vec<usize> = Vec::new();
    if t.len() >= p.len() {
        for i in 0..=(t.len() - p.len()) {
            if t[i..i + p.len()] == p[..] {
                hits.push(i);
            }
        }
    }
    if hits.len() != 1 {
        return Err(hits.len());
    }
    let st = idx[hits[0]];
    let en = idx[hits[0] + p.len() - 1] + 1;
    Ok(st..en)
}

/// start offsets of every occurrence of `pat` in `text` when white space is ignored on both sides
fn all_ignoring_space(text: &str, pat: &str) -> Vec<usize> {
    let p: Vec<u8> = pat.bytes().filter(|b| !b.is_ascii_whitespace()).collect();
    let mut idx: Vec<usize> = Vec::new();
    let mut t: Vec<u8> = Vec::new();
    for (i, b) in text.bytes().enumerate() {
        if !b.is_ascii_whitespace() {
            idx.push(i);
            t.push(b);
        }
    }
    let mut hits: Vec<usize> = Vec::new();
    if !p.is_empty() && t.len() >= p.len() {
        for i in 0..=(t.len() - p.len()) {
            if t[i..i + p.len()] == p[..] {
                hits.push(idx[i]);
            }
        }
    }
    hits
}

fn census(path: &str, word: &str) -> usize {
    let p = std::path::Path::new(path);
    let mut n = 0;
    if p.is_dir() {
        if p.file_name().map(|f| f == "tests" || f == "target").unwrap_or(false) {
            return 0;
        }
        let mut entries: Vec<_> = std::fs::read_dir(p).unwrap_or_else(|e| die("anchor-lost", &format!("{}: {}", path, e))).filter_map(|e| e.ok()).collect();
        entries.sort_by_key(|e| e.path());
        for e in entries {
            n += census(e.path().to_str().unwrap(), word);
        }
        return n;
    }
    if !path.ends_with(".rs") {
        return 0;
    }
    let s = std::fs::read_to_string(p).unwrap_or_else(|e| die("anchor-lost", &format!("{}: {}", path, e)));
    for line in s.lines() {
        let code = match line.find("//") {
            Some(i) => &line[..i],
            None => line,
        };
        let b = code.as_bytes();
        let mut from = 0;
        while let Some(i) = code[from..].find(word) {
            let st = from + i;
            let en = st + word.len();
            let before_ok = st == 0 || !(b[st - 1].is_ascii_alphanumeric() || b[st - 1] == b'_');
            let after_ok = en >= b.len() || !(b[en].is_ascii_alphanumeric() || b[en] == b'_');
            if before_ok && after_ok {
                n += 1;
            }
            from = en;
        }
    }
    n
}

fn main() {
    let args: Vec<String> = std::env::args().collect();
    if args.len() != 5 {
        eprintln!("usage: vp-extract <template> <repo_root> <out.rs> <out.meta.json>");
        std::process::exit(3);
    }
    let template = load_with_includes(&args[1], 0);
    let repo = &args[2];
    let parts = parse_template(&template);
    let mut files: BTreeMap<String, (String, syn::File)> = BTreeMap::new();
    let mut out = String::new();
    let mut metas: Vec<String> = Vec::new();
    for p in parts {
        match p {
            Ok(line) => {
                if let Some(arg) = line.strip_prefix("//@census ") {
                    // R29 `//@census <file|dir> "<word>" <n>`: the word occurs exactly n times (whole word, `//` comments and
                    // `tests` directories left out) in the file / in the .rs files below the directory.  Pins "these are all
                    // the places that mention X" mechanically: any other count stops the run (anchor lost), never an alarm.
                    let (path, rest) = arg.split_once(' ').unwrap_or_else(|| die("template", "census <path> \"word\" <n>"));
                    let rest = rest.trim();
                    let q1 = rest.find('"').unwrap_or_else(|| die("template", "census: quoted word"));
                    let q2 = rest[q1 + 1..].find('"').unwrap_or_else(|| die("template", "census: quoted word")) + q1 + 1;
                    let word = &rest[q1 + 1..q2];
                    let want: usize = rest[q2 + 1..].trim().parse().unwrap_or_else(|_| die("template", "census: count"));
                    let got = census(&format!("{}/{}", repo, path), word);
                    if got != want {
                        die("anchor-lost", &format!("census: `{}` occurs {} times under {} (the unit was written for {})", word, got, path, want));
                    }
                    let _ = writeln!(out, "// ---- census: `{}` occurs {} times under {} (checked)", word, got, path);
                    continue;
                }
                out.push_str(&line);
                out.push('\n');
            }
            Err(d) => {
                if !files.contains_key(&d.file) {
                    let path = format!("{}/{}", repo, d.file);
                    let s = std::fs::read_to_string(&path).unwrap_or_else(|e| die("anchor-lost", &format!("{}: {}", path, e)));
                    let f = syn::parse_file(&s).unwrap_or_else(|e| die("parse-failure", &format!("{}: {}", path, e)));
                    files.insert(d.file.clone(), (s, f));
                }
                let (src, ast) = files.get(&d.file).unwrap();
                let loc = locate(ast, &d);
                let item_src = &src[loc.range.clone()];
                LOST_HINTS.with(|l| l.borrow_mut().clear());
                let (text, rules, name) = match loc.kind {
                    "fn" => {
                        let o = process_fn(item_src, &d, &loc);
                        (o.text, o.rules, o.name)
                    }
                    "const" if d.container.starts_with("impl") => {
                        let o = process_assoc_const(item_src, &d);
                        (o.text, o.rules, d.item.clone())
                    }
                    "macro" => (format!("{}\n", item_src), BTreeMap::new(), d.item.clone()),
                    "constmacro" => {
                        let o = process_constmacro(item_src, &d);
                        (o.text, o.rules, d.item.clone())
                    }
                    "fieldfold" => {
                        let o = process_fieldfold(item_src, &d);
                        (o.text, o.rules, d.item.clone())
                    }
                    _ => {
                        let o = process_adt(item_src, &d);
                        (o.text, o.rules, d.item.clone())
                    }
                };
                let gen_start = out.bytes().filter(|b| *b == b'\n').count() + 1;
                let _ = writeln!(
                    out,
                    "// ---- extracted: {} :: {} :: {} (lines {}-{})",
                    d.file,
                    d.container,
                    d.item,
                    line_of(src, loc.range.start),
                    line_of(src, loc.range.end)
                );
                out.push_str(&text);
                let gen_end = out.bytes().filter(|b| *b == b'\n').count();
                let rules_json: Vec<String> = rules.iter().map(|(k, v)| format!("{}:{}", json_str(k), v)).collect();
                let tags_json: Vec<String> = d.tags.iter().map(|t| json_str(t)).collect();
                metas.push(format!(
                    "{{\"file\":{},\"container\":{},\"item\":{},\"name\":{},\"kind\":{},\"src_lines\":[{},{}],\"gen_lines\":[{},{}],\"rules\":{{{}}},\"tags\":[{}],\"external_body\":{},\"lost_hints\":{},\"assumed_from\":{},\"src_text\":{},\"gen_text\":{}}}",
                    json_str(&d.file),
                    json_str(&d.container),
                    json_str(&d.item),
                    json_str(&name),
                    json_str(loc.kind),
                    line_of(src, loc.range.start),
                    line_of(src, loc.range.end),
                    gen_start,
                    gen_end,
                    rules_json.join(","),
                    tags_json.join(","),
                    d.external_body,
                    serde_json::to_string(&LOST_HINTS.with(|l| l.borrow().clone())).unwrap(),
                    json_str(d.assumed_from.as_deref().unwrap_or("")),
                    json_str(item_src),
                    json_str(&text),
                ));
            }
        }
    }
    std::fs::write(&args[3], out).unwrap();
    std::fs::write(&args[4], format!("{{\"items\":[\n{}\n]}}\n", metas.join(",\n"))).unwrap();
}
