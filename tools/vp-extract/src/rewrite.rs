//! The fixed rewrite rules of DESIGN §3.2, located on the syn AST, applied as *text edits* on the
//! source bytes (nothing is pretty-printed).  Every application is counted per rule.

use crate::{br, die, Dir};
use proc_macro2::{TokenStream, TokenTree};
use std::collections::BTreeMap;
use std::ops::Range;
use syn::spanned::Spanned;
use syn::visit::Visit;

const R9_METHODS: &[&str] = &["map_err", "ok_or_else", "map", "unwrap_or_else", "and_then", "map_ok", "or_else"];

struct Edit {
    range: Range<usize>,
    text: String,
    rule: &'static str,
}

fn is_on(d: &Dir, r: &str) -> bool {
    d.on.iter().any(|x| x == r)
}
fn is_off(d: &Dir, r: &str) -> bool {
    d.off.iter().any(|x| x == r)
}

fn parse_fn(text: &str, what: &str) -> syn::ImplItemFn {
    syn::parse_str(text).unwrap_or_else(|e| die("parse-failure", &format!("{}: {}\n----\n{}", what, e, text)))
}

fn norm(s: &str) -> String {
    s.chars().filter(|c| !c.is_whitespace()).collect()
}

fn collect_idents(ts: TokenStream, name: &str, out: &mut Vec<Range<usize>>) {
    for tt in ts {
        match tt {
            TokenTree::Ident(i) => {
                if i == name {
                    out.push(br(i.span()));
                }
            }
            TokenTree::Group(g) => collect_idents(g.stream(), name, out),
            _ => {}
        }
    }
}

fn apply(text: &str, mut edits: Vec<Edit>, rules: &mut BTreeMap<String, usize>) -> String {
    // choose a non-overlapping subset, innermost (shortest) first
    edits.sort_by_key(|e| (e.range.end - e.range.start, e.range.start));
    let mut chosen: Vec<Edit> = Vec::new();
    for e in edits {
        let clash = chosen.iter().any(|c| {
            let (a, b) = (&c.range, &e.range);
            // zero-width inserts at the same point are allowed only once
            !(a.end <= b.start || b.end <= a.start) || (a.start == b.start && a.end == b.end)
        });
        if !clash {
            chosen.push(e);
        }
    }
    chosen.sort_by(|a, b| b.range.start.cmp(&a.range.start));
    let mut t = text.to_string();
    for e in chosen {
        t.replace_range(e.range.clone(), &e.text);
        *rules.entry(e.rule.to_string()).or_insert(0) += 1;
    }
    t
}

// ------------------------------------------------------------------------------------ pass 0

struct Marker<'a> {
    d: &'a Dir,
    tries: Vec<Range<usize>>,                      // `?` tokens
    calls: Vec<(String, Range<usize>, bool)>,      // method, ident range, arg is closure
}
impl<'ast, 'a> Visit<'ast> for Marker<'a> {
    fn visit_expr_try(&mut self, n: &'ast syn::ExprTry) {
        self.tries.push(br(n.question_token.span()));
        syn::visit::visit_expr_try(self, n);
    }
    fn visit_expr_method_call(&mut self, n: &'ast syn::ExprMethodCall) {
        let m = n.method.to_string();
        if R9_METHODS.contains(&m.as_str()) && n.args.len() == 1 {
            let is_closure = matches!(n.args.first().unwrap(), syn::Expr::Closure(_));
            self.calls.push((m, br(n.method.span()), is_closure));
        } else if m == "map_or" && n.args.len() == 2 {
            // R9 for `Option::map_or(default, some_closure)` — when the second argument is a closure literal
            let is_closure = matches!(n.args.iter().nth(1), Some(syn::Expr::Closure(_)));
            self.calls.push((m, br(n.method.span()), is_closure));
        } else if m == "map_or_else" && n.args.len() == 2 {
            // R9 for `Option::map_or_else(default_closure, some_closure)` — only when both are closure literals
            let is_closure = n.args.iter().all(|a| matches!(a, syn::Expr::Closure(_)));
            self.calls.push((m, br(n.method.span()), is_closure));
        }
        syn::visit::visit_expr_method_call(self, n);
    }
}

fn default_kind(m: &str) -> &'static str {
    match m {
        "map_err" => "res",
        "ok_or_else" => "opt",
        "map" => "opt",
        "unwrap_or_else" => "opt",
        "and_then" => "opt",
        "or_else" => "res",
        "map_ok" => "pollres",
        "map_or_else" => "opt",
        "map_or" => "opt",
        _ => "res",
    }
}

fn mark(text: &str, d: &Dir, rules: &mut BTreeMap<String, usize>) -> String {
    let f = parse_fn(text, &d.item);
    let mut m = Marker { d, tries: vec![], calls: vec![] };
    m.visit_impl_item_fn(&f);
    let _ = m.d;
    let mut edits: Vec<Edit> = Vec::new();
    m.tries.sort_by_key(|r| r.start);
    let all = d.qconv.iter().any(|q| q == "all");
    let allp = d.qconv.iter().any(|q| q == "allp");
    let mut used = 0;
    for (k, r) in m.tries.iter().enumerate() {
        let k1 = (k + 1).to_string();
        let kp = format!("{}p", k + 1);
        let kr = format!("{}r", k + 1);
        if d.qconv.iter().any(|q| *q == kr) {
            // `?` on a plain `Result` inside a fn returning `Poll<Result<..>>`
            edits.push(Edit { range: r.clone(), text: ".__vp_qr()".into(), rule: "R16" });
            used += 1;
        } else if d.qconv.iter().any(|q| *q == kp) || allp {
            edits.push(Edit { range: r.clone(), text: ".__vp_qp()".into(), rule: "R16" });
            used += 1;
        } else if all || d.qconv.iter().any(|q| *q == k1) {
            edits.push(Edit { range: r.clone(), text: ".__vp_q()".into(), rule: "R16" });
            used += 1;
        }
    }
    let wanted = d.qconv.iter().filter(|q| *q != "all" && *q != "allp").count();
    if wanted > used {
        // a listed `?` no longer exists (e.g. it was spelled out as a `match`): nothing to convert there — not fatal
        eprintln!("vp-extract: {}: qconv lists {} `?` but only {} exist", d.item, wanted, m.tries.len());
    }
    if !is_off(d, "R9") {
        m.calls.sort_by_key(|c| c.1.start);
        let mut counts: BTreeMap<String, usize> = BTreeMap::new();
        for (meth, r, is_closure) in &m.calls {
            let c = counts.entry(meth.clone()).or_insert(0);
            *c += 1;
            let explicit = d
                .kinds
                .iter()
                .find(|(mm, n, _)| mm == meth && (*n == *c))
                .or_else(|| d.kinds.iter().find(|(mm, n, _)| mm == meth && *n == 0))
                .map(|(_, _, k)| k.clone());
            let kind = match (explicit, is_closure) {
                (Some(k), _) => k,
                (None, true) => default_kind(meth).to_string(),
                (None, false) => continue,
            };
            if kind == "keep" {
                continue;
            }
            // R9 itself is counted when the match is generated
            edits.push(Edit { range: r.clone(), text: format!("__vp_{}__{}", meth, kind), rule: "mark" });
        }
        for (mm, n, _) in &d.kinds {
            if *n > *counts.get(mm).unwrap_or(&0) {
                die("anchor-lost", &format!("{}: kind {}#{} but only {} such calls", d.item, mm, n, counts.get(mm).unwrap_or(&0)));
            }
        }
    }
    let mut scratch = BTreeMap::new();
    let t = apply(text, edits, &mut scratch);
    let _ = rules;
    t
}

// ------------------------------------------------------------------------------------ fixpoint

struct ReturnFinder {
    found: bool,
}
impl<'ast> Visit<'ast> for ReturnFinder {
    fn visit_expr_return(&mut self, _: &'ast syn::ExprReturn) {
        self.found = true;
    }
    fn visit_expr_try(&mut self, _: &'ast syn::ExprTry) {
        self.found = true;
    }
    fn visit_expr_closure(&mut self, _: &'ast syn::ExprClosure) {}
    fn visit_expr_method_call(&mut self, n: &'ast syn::ExprMethodCall) {
        let m = n.method.to_string();
        if m == "__vp_q" || m == "__vp_qp" || m == "__vp_qr" {
            self.found = true;
        }
        syn::visit::visit_expr_method_call(self, n);
    }
}

struct Pass<'a> {
    src: &'a str,
    d: &'a Dir,
    edits: Vec<Edit>,
    loop_depth: usize,
    tail_loop: Option<Range<usize>>,
    in_tail_loop_depth: Option<usize>,
    wild: usize,
    hoisted: usize,
}

impl<'a> Pass<'a> {
    fn s(&self, r: Range<usize>) -> &'a str {
        &self.src[r]
    }
    fn cfg_kind(&self, attrs: &[syn::Attribute]) -> Option<&'static str> {
        for a in attrs {
            let t = norm(&quote::ToTokens::to_token_stream(a).to_string());
            if t == "#[cfg(feature=\"tracing\")]" || t == "#[cfg(test)]" {
                return Some("drop");
            }
            if t == "#[cfg(not(feature=\"tracing\"))]" || t == "#[cfg(not(test))]" {
                return Some("keep");
            }
        }
        None
    }
    fn closure_parts(&self, c: &syn::ExprClosure, what: &str) -> (Vec<String>, String) {
        let mut rf = ReturnFinder { found: false };
        rf.visit_expr(&c.body);
        if rf.found {
            die("unsupported", &format!("{}: closure passed to {} contains return/?", self.d.item, what));
        }
        let pats: Vec<String> = c
            .inputs
            .iter()
            .map(|p| match p {
                syn::Pat::Type(t) => self.s(br(t.pat.span())).to_string(),
                p => self.s(br(p.span())).to_string(),
            })
            .collect();
        (pats, self.s(br(c.body.span())).to_string())
    }
    fn r9(&mut self, n: &syn::ExprMethodCall, meth: &str, kind: &str) {
        let recv = self.s(br(n.receiver.span())).to_string();
        if meth == "map_or_else" {
            // Option::map_or_else(d, f) == match self { Some(t) => f(t), None => d() }   (std definition)
            let mut it = n.args.iter();
            match (it.next(), it.next(), kind) {
                (Some(syn::Expr::Closure(dc)), Some(syn::Expr::Closure(fc)), "opt") => {
                    let (_, dbody) = self.closure_parts(dc, meth);
                    let (fpats, fbody) = self.closure_parts(fc, meth);
                    let p = fpats.first().cloned().unwrap_or_else(|| "_".to_string());
                    let t = format!("(match {} {{ Some({}) => {}, None => {} }})", recv, p, fbody, dbody);
                    self.edits.push(Edit { range: br(n.span()), text: t, rule: "R9" });
                    return;
                }
                _ => die("unsupported", &format!("{}: R9 map_or_else needs two closure literals and kind opt", self.d.item)),
            }
        }
        if meth == "map_or" {
            // Option::map_or(d, f) == match self { Some(t) => f(t), None => d }   (std definition; `d` is evaluated eagerly
            // in std — it must be a side-effect free expression, which is checked: literal / path / unary only)
            let mut it = n.args.iter();
            match (it.next(), it.next(), kind) {
                (Some(dexp), Some(syn::Expr::Closure(fc)), "opt")
                    if matches!(dexp, syn::Expr::Lit(_) | syn::Expr::Path(_) | syn::Expr::Unary(_)) =>
                {
                    let d = self.s(br(dexp.span())).to_string();
                    let (fpats, fbody) = self.closure_parts(fc, meth);
                    let p = fpats.first().cloned().unwrap_or_else(|| "_".to_string());
                    let t = format!("(match {} {{ Some({}) => {}, None => {} }})", recv, p, fbody, d);
                    self.edits.push(Edit { range: br(n.span()), text: t, rule: "R9" });
                    return;
                }
                _ => die("unsupported", &format!("{}: R9 map_or needs a simple default and a closure literal", self.d.item)),
            }
        }
        let arg = n.args.first().unwrap();
        // (pattern, body) — a non-closure argument F is applied as F(__vp_e)
        let (pat, body) = match arg {
            syn::Expr::Closure(c) => {
                let (pats, body) = self.closure_parts(c, meth);
                let p = if pats.is_empty() { None } else { Some(pats[0].clone()) };
                (p, body)
            }
            other => {
                let f = self.s(br(other.span()));
                (Some("__vp_e".to_string()), format!("({})(__vp_e)", f))
            }
        };
        let p = pat.clone().unwrap_or_else(|| "_".to_string());
        let t = match (meth, kind) {
            ("map_err", "res") => format!("(match {} {{ Ok(__vp_v) => Ok(__vp_v), Err({}) => Err({}) }})", recv, p, body),
            ("map_err", "pollres") => format!(
                "(match {} {{ Poll::Ready(Ok(__vp_v)) => Poll::Ready(Ok(__vp_v)), Poll::Ready(Err({})) => Poll::Ready(Err({})), Poll::Pending => Poll::Pending }})",
                recv, p, body
            ),
            ("map_err", "pollopt") => format!(
                "(match {} {{ Poll::Ready(Some(Ok(__vp_v))) => Poll::Ready(Some(Ok(__vp_v))), Poll::Ready(Some(Err({}))) => Poll::Ready(Some(Err({}))), Poll::Ready(None) => Poll::Ready(None), Poll::Pending => Poll::Pending }})",
                recv, p, body
            ),
            ("map_ok", "pollres") => format!(
                "(match {} {{ Poll::Ready(Ok({})) => Poll::Ready(Ok({})), Poll::Ready(Err(__vp_e)) => Poll::Ready(Err(__vp_e)), Poll::Pending => Poll::Pending }})",
                recv, p, body
            ),
            ("ok_or_else", "opt") => format!("(match {} {{ Some(__vp_v) => Ok(__vp_v), None => Err({}) }})", recv, body),
            ("unwrap_or_else", "opt") => format!("(match {} {{ Some(__vp_v) => __vp_v, None => {} }})", recv, body),
            ("unwrap_or_else", "res") => format!("(match {} {{ Ok(__vp_v) => __vp_v, Err({}) => {} }})", recv, p, body),
            ("map", "opt") => format!("(match {} {{ Some({}) => Some({}), None => None }})", recv, p, body),
            ("map", "res") => format!("(match {} {{ Ok({}) => Ok({}), Err(__vp_e) => Err(__vp_e) }})", recv, p, body),
            ("map", "poll") => format!("(match {} {{ Poll::Ready({}) => Poll::Ready({}), Poll::Pending => Poll::Pending }})", recv, p, body),
            ("and_then", "opt") => format!("(match {} {{ Some({}) => {}, None => None }})", recv, p, body),
            ("and_then", "res") => format!("(match {} {{ Ok({}) => {}, Err(__vp_e) => Err(__vp_e) }})", recv, p, body),
            ("or_else", "res") => format!("(match {} {{ Ok(__vp_v) => Ok(__vp_v), Err({}) => {} }})", recv, p, body),
            _ => die("unsupported", &format!("{}: R9 kind {} for {}", self.d.item, kind, meth)),
        };
        self.edits.push(Edit { range: br(n.span()), text: t, rule: "R9" });
    }
}

impl<'ast, 'a> Visit<'ast> for Pass<'a> {
    fn visit_block(&mut self, b: &'ast syn::Block) {
        for s in &b.stmts {
            let attrs: &[syn::Attribute] = match s {
                syn::Stmt::Local(l) => &l.attrs,
                syn::Stmt::Macro(m) => &m.attrs,
                syn::Stmt::Expr(e, _) => expr_attrs(e),
                syn::Stmt::Item(_) => &[],
            };
            match self.cfg_kind(attrs) {
                Some("drop") => {
                    let start = attrs.iter().map(|a| br(a.span()).start).min().unwrap().min(br(s.span()).start);
                    self.edits.push(Edit { range: start..br(s.span()).end, text: String::new(), rule: "R2" });
                }
                _ => {
                    for a in attrs {
                        self.edits.push(Edit { range: br(a.span()), text: String::new(), rule: "R1" });
                    }
                }
            }
            // R25 (opt-in): hoist the scrutinee of a statement-level / returned `match` into a local, so that a
            // proof hint can be placed between the call that produces the value and the arms that consume it:
            // `return match E { .. }` => `let __vp_mN = E; return match __vp_mN { .. }` (same evaluation order)
            if is_on(self.d, "R25") {
                let m: Option<&syn::ExprMatch> = match s {
                    syn::Stmt::Expr(syn::Expr::Match(m), _) => Some(m),
                    // `(match E { .. })` as produced by R9 / R16 in statement or tail position
                    syn::Stmt::Expr(syn::Expr::Paren(p), _) => match &*p.expr {
                        syn::Expr::Match(m) => Some(m),
                        _ => None,
                    },
                    syn::Stmt::Expr(syn::Expr::Return(r), _) => match r.expr.as_deref() {
                        Some(syn::Expr::Match(m)) => Some(m),
                        _ => None,
                    },
                    _ => None,
                };
                if let Some(m) = m {
                    let is_value = matches!(
                        &*m.expr,
                        syn::Expr::Call(_) | syn::Expr::MethodCall(_) | syn::Expr::Try(_) | syn::Expr::Paren(_) | syn::Expr::Macro(_)
                    );
                    if is_value {
                        let k = self.src.matches("let __vp_m").count() + 1 + self.hoisted;
                        self.hoisted += 1;
                        let sc = br(m.expr.span());
                        let st = br(s.span()).start;
                        let scrut = self.s(sc.clone()).to_string();
                        // one edit covering [stmt start, scrutinee end): prefix text is re-emitted verbatim
                        let prefix = self.s(st..sc.start).to_string();
                        self.edits.push(Edit {
                            range: st..sc.end,
                            text: format!("let __vp_m{} = {};\n{}__vp_m{}", k, scrut, prefix, k),
                            rule: "R25",
                        });
                    }
                }
            }
        }
        syn::visit::visit_block(self, b);
    }
    fn visit_arm(&mut self, a: &'ast syn::Arm) {
        if let Some("drop") = self.cfg_kind(&a.attrs) {
            let start = a.attrs.iter().map(|x| br(x.span()).start).min().unwrap();
            let mut end = br(a.span()).end;
            // swallow a following comma
            if self.src[end..].trim_start().starts_with(',') {
                end += self.src[end..].find(',').unwrap() + 1;
            }
            self.edits.push(Edit { range: start..end, text: String::new(), rule: "R2" });
        } else {
            for x in &a.attrs {
                self.edits.push(Edit { range: br(x.span()), text: String::new(), rule: "R1" });
            }
        }
        syn::visit::visit_arm(self, a);
    }
    fn visit_expr_await(&mut self, n: &'ast syn::ExprAwait) {
        if !is_off(self.d, "R4") {
            let base = br(n.base.span());
            self.edits.push(Edit { range: base.end..br(n.span()).end, text: String::new(), rule: "R4" });
        }
        syn::visit::visit_expr_await(self, n);
    }
    fn visit_expr_macro(&mut self, n: &'ast syn::ExprMacro) {
        self.handle_macro(&n.mac, br(n.span()));
    }
    fn visit_stmt_macro(&mut self, n: &'ast syn::StmtMacro) {
        // `ready!(..);` as a statement keeps its semicolon
        let r = br(n.mac.span());
        self.handle_macro(&n.mac, r);
    }
    fn visit_expr_method_call(&mut self, n: &'ast syn::ExprMethodCall) {
        let m = n.method.to_string();
        if let Some(rest) = m.strip_prefix("__vp_") {
            if rest == "q" {
                let recv = self.s(br(n.receiver.span()));
                self.edits.push(Edit {
                    range: br(n.span()),
                    text: format!("(match {} {{ Ok(__vp_v) => __vp_v, Err(__vp_e) => return Err(From::from(__vp_e)) }})", recv),
                    rule: "R16",
                });
            } else if rest == "qr" {
                let recv = self.s(br(n.receiver.span()));
                self.edits.push(Edit {
                    range: br(n.span()),
                    text: format!("(match {} {{ Ok(__vp_v) => __vp_v, Err(__vp_e) => return Poll::Ready(Err(From::from(__vp_e))) }})", recv),
                    rule: "R16",
                });
            } else if rest == "qp" {
                let recv = self.s(br(n.receiver.span()));
                self.edits.push(Edit {
                    range: br(n.span()),
                    text: format!(
                        "(match {} {{ Poll::Ready(Ok(__vp_v)) => Poll::Ready(__vp_v), Poll::Ready(Err(__vp_e)) => return Poll::Ready(Err(From::from(__vp_e))), Poll::Pending => Poll::Pending }})",
                        recv
                    ),
                    rule: "R16",
                });
            } else if let Some((meth, kind)) = rest.split_once("__") {
                self.r9(n, meth, kind);
            }
        } else if m == "retain" && n.args.len() == 1 && is_on(self.d, "R11") {
            // `V.retain(|s| s.is_some())` => `shim_retain_some(&mut V)` (DESIGN §3.2 R11): Vec::retain with a closure
            // has no spec here; the shim's assumed contract is "order-preserving filter of the Some entries".
            if let Some(syn::Expr::Closure(c)) = n.args.first() {
                let (pats, cbody) = self.closure_parts(c, "retain");
                if pats.len() == 1 && norm(&cbody) == format!("{}.is_some()", norm(&pats[0])) {
                    let v = self.s(br(n.receiver.span()));
                    self.edits.push(Edit { range: br(n.span()), text: format!("shim_retain_some(&mut {})", v), rule: "R11" });
                }
            }
        } else if m == "to_string" && n.args.is_empty() && !is_off(self.d, "R3") {
            self.edits.push(Edit { range: br(n.span()), text: "shim_msg()".into(), rule: "R3" });
        }
        syn::visit::visit_expr_method_call(self, n);
    }
    fn visit_expr_call(&mut self, n: &'ast syn::ExprCall) {
        if let syn::Expr::Path(p) = &*n.func {
            let t = norm(&quote::ToTokens::to_token_stream(&p.path).to_string());
            if t == "Pin::new" && n.args.len() == 1 && !is_off(self.d, "R15") {
                let a = self.s(br(n.args.first().unwrap().span()));
                self.edits.push(Edit { range: br(n.span()), text: format!("({})", a), rule: "R15" });
            }
        }
        syn::visit::visit_expr_call(self, n);
    }
    fn visit_expr_closure(&mut self, c: &'ast syn::ExprClosure) {
        for p in &c.inputs {
            if let syn::Pat::Wild(w) = p {
                self.wild += 1;
                self.edits.push(Edit { range: br(w.span()), text: format!("_vp_w{}", self.wild), rule: "R12" });
            }
        }
        syn::visit::visit_expr_closure(self, c);
    }
    fn visit_expr_while(&mut self, n: &'ast syn::ExprWhile) {
        if is_on(self.d, "R18") {
            if let syn::Expr::Let(l) = &*n.cond {
                let pat = self.s(br(l.pat.span()));
                let e = self.s(br(l.expr.span()));
                let body = self.s(br(n.body.span()));
                let lbl = n.label.as_ref().map(|l| self.s(br(l.span())).to_string()).unwrap_or_default();
                self.edits.push(Edit {
                    range: br(n.span()),
                    text: format!("{}loop {{ match {} {{ {} => {} _ => break, }} }}", lbl, e, pat, body),
                    rule: "R18",
                });
            }
        }
        self.loop_depth += 1;
        syn::visit::visit_expr_while(self, n);
        self.loop_depth -= 1;
    }
    fn visit_expr_for_loop(&mut self, n: &'ast syn::ExprForLoop) {
        if is_on(self.d, "R10") {
            // `for P in V.iter_mut().filter(|s| C) { B }`  =>  index loop over V (DESIGN §3.2 R10); the `for` must be in
            // statement position (two statements are emitted: a block around them confuses Verus' loop-clause parser).
            // The increment precedes the body so that `continue` in B keeps its meaning; B is kept verbatim.
            // Sound because B cannot change V's length while `iter_mut()` borrows it (borrow checker).
            if let syn::Expr::MethodCall(f) = &*n.expr {
                if f.method == "filter" && f.args.len() == 1 {
                    if let (syn::Expr::MethodCall(im), Some(syn::Expr::Closure(c))) = (&*f.receiver, f.args.first()) {
                        if im.method == "iter_mut" && im.args.is_empty() && c.inputs.len() == 1 && n.label.is_none() {
                            let v = self.s(br(im.receiver.span()));
                            let (pats, cbody) = self.closure_parts(c, "filter");
                            let pat = self.s(br(n.pat.span()));
                            let body = self.s(br(n.body.span()));
                            self.edits.push(Edit {
                                range: br(n.span()),
                                text: format!(
                                    "let mut __vp_i: usize = 0; while __vp_i < {v}.len() {{ let __vp_j = __vp_i; __vp_i += 1; if !({{ let {p} = &{v}[__vp_j]; {c} }}) {{ continue; }} let {pat} = &mut {v}[__vp_j]; {body} }}",
                                    v = v, p = pats[0], c = cbody, pat = pat, body = body
                                ),
                                rule: "R10",
                            });
                        }
                    }
                }
            }
        }
        if is_on(self.d, "R18for") {
            // the language definition of `for`, with the iterator bound to a local
            let is_range = matches!(&*n.expr, syn::Expr::Range(_));
            if !is_range {
                let pat = self.s(br(n.pat.span()));
                let e = self.s(br(n.expr.span()));
                let body = self.s(br(n.body.span()));
                self.edits.push(Edit {
                    range: br(n.span()),
                    text: format!(
                        "{{ let mut __vp_it = IntoIterator::into_iter({}); loop {{ match __vp_it.next() {{ Some({}) => {} None => break, }} }} }}",
                        e, pat, body
                    ),
                    rule: "R18",
                });
            }
        }
        self.loop_depth += 1;
        syn::visit::visit_expr_for_loop(self, n);
        self.loop_depth -= 1;
    }
    fn visit_expr_loop(&mut self, n: &'ast syn::ExprLoop) {
        let is_tail = self.tail_loop.as_ref().map(|r| *r == br(n.span())).unwrap_or(false);
        self.loop_depth += 1;
        if is_tail {
            self.in_tail_loop_depth = Some(self.loop_depth);
        }
        syn::visit::visit_expr_loop(self, n);
        if is_tail {
            self.in_tail_loop_depth = None;
        }
        self.loop_depth -= 1;
    }
    fn visit_expr_break(&mut self, n: &'ast syn::ExprBreak) {
        if is_on(self.d, "R13") && n.expr.is_some() && n.label.is_none() {
            if self.in_tail_loop_depth == Some(self.loop_depth) {
                let kw = br(n.break_token.span());
                self.edits.push(Edit { range: kw, text: "return".into(), rule: "R13" });
            } else {
                die("unsupported", &format!("{}: `break <value>` outside the tail loop", self.d.item));
            }
        }
        syn::visit::visit_expr_break(self, n);
    }
    fn visit_expr_match(&mut self, n: &'ast syn::ExprMatch) {
        if is_on(self.d, "R17") {
            // match on byte-string literal patterns => if-chain on content equality
            let mut arms: Vec<(Vec<String>, String)> = Vec::new();
            let mut dflt: Option<String> = None;
            let mut ok = true;
            for a in &n.arms {
                if a.guard.is_some() {
                    ok = false;
                    break;
                }
                let body = self.s(br(a.body.span())).to_string();
                let mut lits = Vec::new();
                let mut pats: Vec<&syn::Pat> = vec![];
                match &a.pat {
                    syn::Pat::Or(o) => pats.extend(o.cases.iter()),
                    p => pats.push(p),
                }
                let mut wild = false;
                for p in pats {
                    match p {
                        syn::Pat::Lit(l) if matches!(l.lit, syn::Lit::ByteStr(_) | syn::Lit::Str(_)) => lits.push(self.s(br(l.span())).to_string()),
                        syn::Pat::Wild(_) => wild = true,
                        _ => ok = false,
                    }
                }
                if wild {
                    dflt = Some(body);
                } else {
                    arms.push((lits, body));
                }
            }
            if ok && dflt.is_some() && !arms.is_empty() {
                let scrut = self.s(br(n.expr.span()));
                let mut t = format!("{{ let __vp_m = {}; ", scrut);
                for (k, (lits, body)) in arms.iter().enumerate() {
                    let cond: Vec<String> = lits.iter().map(|l| format!("__vp_m == {}", l)).collect();
                    t.push_str(&format!("{}if {} {{ {} }} ", if k == 0 { "" } else { "else " }, cond.join(" || "), body));
                }
                t.push_str(&format!("else {{ {} }} }}", dflt.unwrap()));
                self.edits.push(Edit { range: br(n.span()), text: t, rule: "R17" });
            }
        }
        syn::visit::visit_expr_match(self, n);
    }
}

impl<'a> Pass<'a> {
    fn handle_macro(&mut self, mac: &syn::Macro, range: Range<usize>) {
        let name = mac.path.segments.last().map(|s| s.ident.to_string()).unwrap_or_default();
        if name == "format" && !is_off(self.d, "R3") {
            self.edits.push(Edit { range, text: "shim_msg()".into(), rule: "R3" });
        } else if name == "ready" && !is_off(self.d, "R22") {
            // definition of futures_util::ready! / std::task::ready!
            let inner = br(mac.delimiter.span().open()).end..br(mac.delimiter.span().close()).start;
            let x = self.s(inner);
            self.edits.push(Edit {
                range,
                text: format!("(match {} {{ Poll::Ready(__vp_t) => __vp_t, Poll::Pending => return Poll::Pending }})", x),
                rule: "R22",
            });
        } else if (name == "trace" || name == "debug" || name == "warn" || name == "info" || name == "error") && !is_off(self.d, "R2") {
            // tracing macros only occur under cfg(feature = "tracing") and are dropped with their statement
        }
    }
}

fn expr_attrs(e: &syn::Expr) -> &[syn::Attribute] {
    use syn::Expr::*;
    match e {
        Array(x) => &x.attrs,
        Assign(x) => &x.attrs,
        Async(x) => &x.attrs,
        Await(x) => &x.attrs,
        Binary(x) => &x.attrs,
        Block(x) => &x.attrs,
        Break(x) => &x.attrs,
        Call(x) => &x.attrs,
        Cast(x) => &x.attrs,
        Closure(x) => &x.attrs,
        Continue(x) => &x.attrs,
        Field(x) => &x.attrs,
        ForLoop(x) => &x.attrs,
        If(x) => &x.attrs,
        Index(x) => &x.attrs,
        Let(x) => &x.attrs,
        Lit(x) => &x.attrs,
        Loop(x) => &x.attrs,
        Macro(x) => &x.attrs,
        Match(x) => &x.attrs,
        MethodCall(x) => &x.attrs,
        Paren(x) => &x.attrs,
        Path(x) => &x.attrs,
        Range(x) => &x.attrs,
        Reference(x) => &x.attrs,
        Repeat(x) => &x.attrs,
        Return(x) => &x.attrs,
        Struct(x) => &x.attrs,
        Try(x) => &x.attrs,
        Tuple(x) => &x.attrs,
        Unary(x) => &x.attrs,
        Unsafe(x) => &x.attrs,
        While(x) => &x.attrs,
        _ => &[],
    }
}

pub fn run(text0: &str, d: &Dir, rules: &mut BTreeMap<String, usize>) -> String {
    let mut text = text0.to_string();
    // --- one-shot token-level rules on the original text
    // R7: type-parameter instantiation
    if !d.tysubst.is_empty() || d.dropgenerics {
        let f = parse_fn(&text, &d.item);
        let mut edits: Vec<Edit> = Vec::new();
        // ranges removed by `dropgenerics`: a substituted type parameter of the fn itself must not be rewritten
        // inside them (the shorter edit would win and leave `fn f<Vec<u8>>`)
        let mut dropped: Vec<Range<usize>> = Vec::new();
        if d.dropgenerics {
            if f.sig.generics.lt_token.is_some() {
                let r = br(f.sig.generics.lt_token.span()).start..br(f.sig.generics.gt_token.span()).end;
                dropped.push(r.clone());
                edits.push(Edit { range: r, text: String::new(), rule: "R7" });
            }
            if let Some(w) = &f.sig.generics.where_clause {
                dropped.push(br(w.span()));
                edits.push(Edit { range: br(w.span()), text: String::new(), rule: "R7" });
            }
        }
        let ts: TokenStream = text.parse().unwrap();
        for (a, b) in &d.tysubst {
            let mut v = vec![];
            collect_idents(ts.clone(), a, &mut v);
            if v.is_empty() {
                die("anchor-lost", &format!("{}: tysubst {} not found", d.item, a));
            }
            for r in v {
                if dropped.iter().any(|dr| dr.start <= r.start && r.end <= dr.end) {
                    continue;
                }
                edits.push(Edit { range: r, text: b.clone(), rule: "R7" });
            }
        }
        text = apply(&text, edits, rules);
    }
    // R20: by-value `mut self`
    {
        let f = parse_fn(&text, &d.item);
        if let Some(syn::FnArg::Receiver(r)) = f.sig.inputs.first() {
            if r.reference.is_none() && r.mutability.is_some() && r.colon_token.is_none() {
                let mut edits: Vec<Edit> = Vec::new();
                let m = br(r.mutability.unwrap().span());
                let selfr = br(r.self_token.span());
                edits.push(Edit { range: m.start..selfr.start, text: String::new(), rule: "R20" });
                let open = br(f.block.brace_token.span.open());
                edits.push(Edit { range: open.end..open.end, text: " let mut __vp_self = self; ".into(), rule: "R20" });
                let ts: TokenStream = text.parse().unwrap();
                let mut v = vec![];
                collect_idents(ts, "self", &mut v);
                let mut n = 0;
                for rg in v {
                    if rg.start > open.start {
                        edits.push(Edit { range: rg, text: "__vp_self".into(), rule: "R20" });
                        n += 1;
                    }
                }
                let _ = n;
                let mut scratch = BTreeMap::new();
                text = apply(&text, edits, &mut scratch);
                *rules.entry("R20".into()).or_insert(0) += 1;
            }
        }
    }
    // R4: async fn
    {
        let f = parse_fn(&text, &d.item);
        if let Some(a) = &f.sig.asyncness {
            if !is_off(d, "R4") {
                let r = br(a.span());
                let end = br(f.sig.fn_token.span()).start;
                text = apply(&text, vec![Edit { range: r.start..end, text: String::new(), rule: "R4" }], rules);
            }
        }
    }
    // pass 0: resolve ordinals on the (nearly) original text
    text = mark(&text, d, rules);
    // fixpoint
    for _round in 0..64 {
        let f = parse_fn(&text, &d.item);
        let tail_loop = match f.block.stmts.last() {
            Some(syn::Stmt::Expr(e @ syn::Expr::Loop(_), None)) => Some(br(e.span())),
            _ => None,
        };
        let mut p = Pass { src: &text, d, edits: vec![], loop_depth: 0, tail_loop, in_tail_loop_depth: None, wild: 0, hoisted: 0 };
        p.visit_impl_item_fn(&f);
        if p.edits.is_empty() {
            // an opt-in structural rule that found no site is a lost anchor (undecided), never a silent pass
            for r in ["R10", "R11"] {
                if is_on(d, r) && rules.get(r).copied().unwrap_or(0) == 0 {
                    die("anchor-lost", &format!("{}: //@on {} but no matching site", d.item, r));
                }
            }
            return text;
        }
        let edits = std::mem::take(&mut p.edits);
        text = apply(&text, edits, rules);
    }
    die("internal", &format!("{}: rewrite did not reach a fixpoint", d.item));
}
