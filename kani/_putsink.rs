//! (kaniB) A recording `BufMut` for Kani harnesses: the k-th `put_u8/u16/u32/u64` is kept in slot k
//! (concrete index) as its big-endian bytes, so a sequence of varints written by the code under test can
//! be compared one by one with `spec_varint_enc` without symbolic buffer offsets (18 varints written
//! into a real `&mut [u8]` at symbolic offsets do not finish / run out of memory, measured).
//! Every other `BufMut` entry point is `unreachable!` — a harness that passes has also shown that the
//! encoder under test uses nothing but those four calls.
//! Assumed: `BufMut::put_uN` appends the N big-endian bytes of its argument (the documented `bytes`
//! contract; for the real `&mut [u8]` see C16 c16_encode_matches_spec and C14's WriteBuf harnesses).
#![allow(dead_code)]
use bytes::BufMut;

pub const SINK_SLOTS: usize = 24;
pub struct PutSink {
    pub slot: [([u8; 8], usize); SINK_SLOTS],
    pub n: usize,
}
impl PutSink {
    pub fn new() -> Self {
        PutSink { slot: [([0u8; 8], 0); SINK_SLOTS], n: 0 }
    }
    fn rec(&mut self, b: [u8; 8], len: usize) {
        assert!(self.n < SINK_SLOTS);
        self.slot[self.n] = (b, len);
        self.n += 1;
    }
    /// total number of bytes put so far, slots 0..upto (concrete `upto`)
    pub fn total(&self, upto: usize) -> usize {
        let mut t = 0;
        let mut k = 0;
        while k < upto {
            t += self.slot[k].1;
            k += 1;
        }
        t
    }
}
unsafe impl BufMut for PutSink {
    fn remaining_mut(&self) -> usize {
        usize::MAX
    }
    unsafe fn advance_mut(&mut self, _cnt: usize) {
        unreachable!("encoder under test must only use put_u8/16/32/64")
    }
    fn chunk_mut(&mut self) -> &mut bytes::buf::UninitSlice {
        unreachable!("encoder under test must only use put_u8/16/32/64")
    }
    fn put_slice(&mut self, _src: &[u8]) {
        unreachable!("encoder under test must only use put_u8/16/32/64")
    }
    // big-endian by division (not `to_be_bytes`)
    fn put_u8(&mut self, n: u8) {
        self.rec([n, 0, 0, 0, 0, 0, 0, 0], 1)
    }
    fn put_u16(&mut self, n: u16) {
        self.rec([(n / 256) as u8, (n % 256) as u8, 0, 0, 0, 0, 0, 0], 2)
    }
    fn put_u32(&mut self, n: u32) {
        let b = |k: u32| ((n / (1u32 << (8 * k))) % 256) as u8;
        self.rec([b(3), b(2), b(1), b(0), 0, 0, 0, 0], 4)
    }
    fn put_u64(&mut self, n: u64) {
        let b = |k: u32| ((n / (1u64 << (8 * k))) % 256) as u8;
        self.rec([b(7), b(6), b(5), b(4), b(3), b(2), b(1), b(0)], 8)
    }
}
