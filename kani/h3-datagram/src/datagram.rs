// Kani harnesses attached (as a child module) to h3-datagram/src/datagram.rs — C18 (+ C06 for decode).
//
// Functions under check (real code, compiled by rustc inside the h3-datagram crate):
//   Datagram::{new, encode, decode, stream_id, payload, into_payload}, impl Buf for EncodedDatagram.
// Spec (kani/_spec.rs, RFC 9297 §2.1): datagram(S, P) = spec_varint_enc(S / 4) ++ P.
//
// The payload is a *content-free* mock `Buf`: `EncodedDatagram` never looks inside its payload, it only
// forwards `remaining / chunk / advance`; the mock has a symbolic length, a symbolic first-chunk length
// (so `chunk().len() < remaining()` is possible, as with any multi-chunk Buf), counts what was advanced
// and hands out slices of one static array, so "the payload chunk" is recognised by pointer identity.
use super::*;
#[path = "/verif/kani/_spec.rs"]
mod spec;
use spec::*;
use std::convert::TryFrom;

static MOCK_BYTES: [u8; 4] = [0xa5; 4];

struct MockPayload {
    rem: usize,      // bytes still in the payload
    cap: usize,      // upper bound of a chunk (1..=4): chunk().len() == min(rem, cap)
    advanced: usize, // total number of bytes the wrapper has consumed from the payload
}

impl Buf for MockPayload {
    fn remaining(&self) -> usize {
        self.rem
    }
    fn chunk(&self) -> &[u8] {
        let n = if self.rem < self.cap { self.rem } else { self.cap };
        &MOCK_BYTES[..n]
    }
    fn advance(&mut self, cnt: usize) {
        // bytes' contract: advancing past the end is a caller error
        assert!(cnt <= self.rem, "payload advanced past its end");
        self.rem -= cnt;
        self.advanced += cnt;
    }
}

fn any_payload() -> MockPayload {
    let rem: usize = kani::any();
    let cap: usize = kani::any();
    // weakest bound under which `header + payload` is a usize at all
    kani::assume(rem <= usize::MAX - 8);
    kani::assume(1 <= cap && cap <= 4);
    MockPayload { rem, cap, advanced: 0 }
}

fn any_request_stream_id() -> (u64, StreamId) {
    let k: u64 = kani::any();
    kani::assume(k < TWO62 / 4);
    let s = k * 4;
    (s, StreamId::try_from(s).unwrap())
}

/// The `Buf` view of `ed` after `consumed` bytes of `hdr[..n] ++ payload(rem0)` have been taken.
fn check_view(ed: &EncodedDatagram<MockPayload>, hdr: &[u8; 8], n: usize, rem0: usize, cap: usize, consumed: usize) {
    assert!(ed.remaining() == n + rem0 - consumed);
    let c = ed.chunk();
    if consumed < n {
        // still inside the header: exactly the rest of the quarter-stream-id varint
        assert!(c.len() == n - consumed);
        let mut i = 0;
        while i < 8 {
            if i < c.len() {
                assert!(c[i] == hdr[consumed + i]);
            }
            i += 1;
        }
        assert!(ed.payload.advanced == 0);
        assert!(ed.payload.rem == rem0);
    } else {
        // header done: the payload's own chunk, and the payload consumed exactly as far as we are
        let prem = rem0 - (consumed - n);
        assert!(ed.payload.advanced == consumed - n);
        assert!(ed.payload.rem == prem);
        assert!(c.as_ptr() == MOCK_BYTES.as_ptr());
        assert!(c.len() == if prem < cap { prem } else { cap });
    }
    // chunk() is non-empty whenever something remains (bytes' contract for chunk)
    assert!((ed.remaining() == 0) == c.is_empty());
}

// vp: props=C18; tag=C18.new; kind=complete; tier=quick
// Datagram::new keeps the stream id and the payload for every request stream id (4k < 2^62)
#[kani::proof]
fn c18_new_keeps_id_and_payload() {
    let (s, sid) = any_request_stream_id();
    let p = any_payload();
    let (rem0, cap) = (p.rem, p.cap);
    let d = Datagram::new(sid, p);
    assert!(d.stream_id().into_inner() == s);
    assert!(d.payload().rem == rem0 && d.payload().advanced == 0);
    let p2 = d.into_payload();
    assert!(p2.rem == rem0 && p2.cap == cap && p2.advanced == 0);
    kani::cover!(s == TWO62 - 4);
    kani::cover!(s == 0 && rem0 == 0);
}

// vp: props=C18; tag=C18.encode.header; kind=complete; tier=quick
// encode(S, P): header bytes == spec_varint_enc(S/4), then P untouched; total length n + |P|
#[kani::proof]
#[kani::unwind(9)]
fn c18_encode_header_is_quarter_stream_id() {
    let (s, sid) = any_request_stream_id();
    let p = any_payload();
    let (rem0, cap) = (p.rem, p.cap);
    let ed = Datagram::new(sid, p).encode();
    let (hdr, n) = spec_datagram_hdr(s);
    assert!(ed.len == n);
    assert!(ed.pos == 0);
    check_view(&ed, &hdr, n, rem0, cap, 0);
    kani::cover!(n == 1 && s > 0);
    kani::cover!(n == 2);
    kani::cover!(n == 4);
    kani::cover!(n == 8);
    kani::cover!(s == 4 * 64); // first id whose quarter id needs two bytes
}

// vp: props=C18; tag=C18.buf.view; kind=complete; tier=quick
// impl Buf for EncodedDatagram: after any two advances (every split point of header and payload)
// remaining()/chunk() expose the rest of `spec header ++ payload`: nothing skipped, nothing repeated.
#[kani::proof]
#[kani::unwind(9)]
fn c18_encoded_buf_view_any_split() {
    let (s, sid) = any_request_stream_id();
    let p = any_payload();
    let (rem0, cap) = (p.rem, p.cap);
    let mut ed = Datagram::new(sid, p).encode();
    let (hdr, n) = spec_datagram_hdr(s);
    let total = n + rem0;
    let a1: usize = kani::any();
    kani::assume(a1 <= total);
    ed.advance(a1);
    check_view(&ed, &hdr, n, rem0, cap, a1);
    let a2: usize = kani::any();
    kani::assume(a2 <= total - a1);
    ed.advance(a2);
    check_view(&ed, &hdr, n, rem0, cap, a1 + a2);
    kani::cover!(a1 > 0 && a1 < n && a1 + a2 < n && a2 > 0); // both inside the header
    kani::cover!(a1 < n && a1 + a2 > n); // second advance crosses the boundary
    kani::cover!(a1 == n && a2 > 0); // exactly at the boundary
    kani::cover!(a1 > n && a2 > 0 && a1 + a2 < total); // both inside the payload
    kani::cover!(a1 + a2 == total && rem0 > 0 && n == 8);
    kani::cover!(a1 == 0 && a2 == 0);
}

// vp: props=C18; tag=C18.buf.drain; kind=complete; tier=quick
// the way a transport drains it: take chunk(), advance(chunk().len()) — the header comes out whole and
// first, byte for byte, then the payload's chunks in order.
#[kani::proof]
#[kani::unwind(9)]
fn c18_encoded_buf_drain_by_chunks() {
    let (s, sid) = any_request_stream_id();
    let p = any_payload();
    let (rem0, cap) = (p.rem, p.cap);
    let mut ed = Datagram::new(sid, p).encode();
    let (hdr, n) = spec_datagram_hdr(s);
    check_view(&ed, &hdr, n, rem0, cap, 0);
    let l1 = ed.chunk().len();
    assert!(l1 == n);
    ed.advance(l1);
    check_view(&ed, &hdr, n, rem0, cap, n);
    let l2 = ed.chunk().len();
    ed.advance(l2);
    check_view(&ed, &hdr, n, rem0, cap, n + l2);
    kani::cover!(l2 == 4 && rem0 > 4);
    kani::cover!(l2 == 0);
}

// vp: props=C18,C06; tag=C18.decode; kind=complete; tier=quick
// decode over every byte string of length 0..=9 (complete for the header: the varint is at most 8 bytes
// and decode never inspects what follows it): Ok <=> the quarter stream id is complete and 4*q <= 2^62-1;
// then stream id == 4*q and the payload is exactly the rest; otherwise Err carrying H3_DATAGRAM_ERROR.
// No panic, no overflow in `q * 4` (Kani's arithmetic checks are on).
#[kani::proof]
#[kani::unwind(10)]
fn c18_decode_matches_spec() {
    let arr: [u8; 9] = kani::any();
    let len: usize = kani::any();
    kani::assume(len <= 9);
    let input: &[u8] = &arr[..len];
    let res = Datagram::<&[u8]>::decode(input);
    let (ok, err) = (res.is_ok(), res.is_err());
    match spec_datagram_dec(input) {
        Some((sid, off)) => {
            let d = match res {
                Ok(d) => d,
                Err(_) => panic!("valid datagram refused"),
            };
            assert!(d.stream_id().into_inner() == sid);
            assert!(sid % 4 == 0 && sid < TWO62);
            let rest: &[u8] = &arr[off..len];
            assert!(d.payload().as_ptr() == rest.as_ptr());
            assert!(d.payload().len() == rest.len());
        }
        None => {
            let e = match res {
                Ok(_) => panic!("invalid datagram accepted"),
                Err(e) => e,
            };
            // the code as the connection layer will see it (public conversion used by h3)
            match h3::error::LocalError::from(e) {
                h3::error::LocalError::Application { code, .. } => {
                    assert!(code.value() == SPEC_H3_DATAGRAM_ERROR);
                }
                _ => panic!("not an application error"),
            }
        }
    }
    kani::cover!(ok && len == 9 && arr[0] >= 0xc0);
    kani::cover!(ok && len == 1);
    kani::cover!(err && len == 8 && arr[0] >= 0xd0); // complete varint, quarter id >= 2^60
    kani::cover!(err && len == 7); // truncated
    kani::cover!(err && len == 0);
    kani::cover!(ok && len == 8 && arr[0] == 0xcf && arr[7] == 0xff); // q = 2^60 - 1
}

// vp: props=C18; tag=C18.roundtrip; kind=complete; tier=quick
// decode(encode(S, P)) gives S again: the header the encoder produced is read back by the decoder
// (payload part: C18.buf.view shows the bytes after the header are P's; decode keeps the rest).
#[kani::proof]
#[kani::unwind(10)]
fn c18_encode_decode_roundtrip() {
    let (s, sid) = any_request_stream_id();
    let p = any_payload();
    let ed = Datagram::new(sid, p).encode();
    let mut wire = [0u8; 8];
    let h = ed.chunk();
    let n = h.len();
    assert!(1 <= n && n <= 8);
    let mut i = 0;
    while i < 8 {
        if i < n {
            wire[i] = h[i];
        }
        i += 1;
    }
    match Datagram::<&[u8]>::decode(&wire[..n]) {
        Ok(d) => {
            assert!(d.stream_id().into_inner() == s);
            assert!(d.payload().is_empty());
        }
        Err(_) => panic!("own encoding refused"),
    }
    kani::cover!(n == 8);
    kani::cover!(n == 2);
}
