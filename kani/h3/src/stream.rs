// Kani harnesses attached (as a child module) to h3/src/stream.rs — C14 (what h3 hands to the transport),
// C19 (WebTransport stream headers).
//
// Functions under check (real code): `WriteBuf::{encode_stream_type, encode_value, encode_frame_header}`,
// `impl From<StreamType | UniStreamHeader | BidiStreamHeader | Frame<B> | (StreamType, Frame<B>)> for
// WriteBuf<B>`, `impl Encode for UniStreamHeader / BidiStreamHeader`, `impl Buf for WriteBuf<B>`
// (`remaining`, `chunk`, `advance`), together with everything below them (`Frame::encode`, `VarInt::encode`,
// bytes' `BufMut for &mut [u8]`), all compiled from the real crate.
// Spec (kani/_spec.rs): a frame is varint(type) ++ varint(length) ++ payload with length == the payload's
// remaining() (RFC 9114 §7.1); a unidirectional stream starts with varint(stream type) (§6.2); WebTransport
// streams start with varint(0x54 | 0x41) ++ varint(session id).
//
// Structure (modular, the way the code is):
//   Part A  every `From` impl establishes  `pos == 0`, `len <= 64`, `buf[..len] == spec bytes`, the frame
//           (and its payload) stored untouched.                                   [C14.writebuf.from.*]
//   Part B  `impl Buf` on EVERY representable state `pos <= len <= 64` with arbitrary header bytes, for each
//           shape of `frame` (None / Data(payload) / payload-less frames / Headers(Bytes)): remaining(),
//           chunk(), advance() expose `buf[pos..len] ++ payload`, header first, nothing skipped or
//           repeated, `pos <= len` preserved, under any two advances.              [C14.writebuf.buf.*]
//   Part C  the two composed, end to end, for DATA frames (From + two advances / chunk-wise drain).
//
// Payloads are a content-free mock `Buf` (symbolic length < 2^62, symbolic first-chunk length, counts what
// was advanced, chunks recognised by pointer identity): `WriteBuf` never looks inside a payload.
// The frame variant is concrete in every harness (a symbolic discriminant sends CBMC through the drop /
// clone glue of the `Bytes`-holding variants via function pointers and does not finish).
// `fastrand::u64` is stubbed (generic signature repeated) by "any value of the requested range"; the stub
// logs what it returned so that grease values are compared with 0x1f * N + 0x21 for the very N drawn.
// `UniStreamHeader::Control(settings)` with non-empty `Settings`: the sequence of puts the real
// `UniStreamHeader::encode` makes for every `Config`, and that it is <= 64 bytes, is C13.config.wire
// (kani/h3/src/config.rs, against a recording sink); what `WriteBuf` adds — `encode_value`: whatever an
// encoder puts (<= the room left) lands verbatim behind `len`, nothing else moves — is proved here for an
// arbitrary content-free encoder [C14.writebuf.encode-value], plus the empty-settings instance end to end.
use super::*;
#[path = "/verif/kani/_spec.rs"]
mod spec;
use crate::proto::push::PushId;
use spec::*;
use std::convert::TryFrom;

static mut RAND_LOG: [u64; 2] = [0; 2];
static mut RAND_CNT: usize = 0;
fn stub_fastrand_u64<R: std::ops::RangeBounds<u64>>(r: R) -> u64 {
    let x: u64 = kani::any();
    kani::assume(r.contains(&x));
    unsafe {
        if RAND_CNT < 2 {
            RAND_LOG[RAND_CNT] = x;
        }
        RAND_CNT += 1;
    }
    x
}
fn rand_log(i: usize) -> u64 {
    unsafe {
        assert!(i < RAND_CNT);
        RAND_LOG[i]
    }
}
fn rand_count() -> usize {
    unsafe { RAND_CNT }
}
static MOCK_BYTES: [u8; 4] = [0xa5; 4];

struct MockPayload {
    rem: usize,      // bytes still in the payload
    cap: usize,      // chunk().len() == min(rem, cap), 1 <= cap <= 4
    advanced: usize, // what the wrapper consumed from the payload so far
}
impl Buf for MockPayload {
    fn remaining(&self) -> usize {
        self.rem
    }
    fn chunk(&self) -> &[u8] {
        let n = if self.rem < self.cap { self.rem } else { self.cap };
        &MOCK_BYTES[..n]
    }
    fn advance(&mut self, cnt: usize) {
        assert!(cnt <= self.rem, "payload advanced past its end");
        self.rem -= cnt;
        self.advanced += cnt;
    }
}
fn any_payload() -> MockPayload {
    let rem: usize = kani::any();
    let cap: usize = kani::any();
    // the frame length is a varint: 2^62 bytes or more cannot be framed (write_var would panic)
    kani::assume((rem as u64) < TWO62);
    kani::assume(1 <= cap && cap <= 4);
    MockPayload { rem, cap, advanced: 0 }
}

type W = WriteBuf<MockPayload>;

fn payload_state(wb: &W) -> Option<(usize, usize)> {
    match &wb.frame {
        Some(Frame::Data(p)) => Some((p.rem, p.advanced)),
        _ => None,
    }
}

/// [C14.writebuf.from] postcondition of every `From` impl: cursor at 0, header == spec bytes, fits the buffer.
fn assert_fresh(wb: &W, want: &SpecBytes) {
    assert!(wb.pos == 0);
    assert!(wb.len == want.n);
    assert!(wb.len <= WRITE_BUF_ENCODE_SIZE); // [C14.writebuf.capacity]
    let k: usize = kani::any(); // every index at once
    kani::assume(k < want.n);
    assert!(wb.buf[k] == want.b[k]);
}

/// An arbitrary representable state: any header bytes, any `pos <= len <= 64`.
fn any_state(frame: Option<Frame<MockPayload>>) -> W {
    let buf: [u8; WRITE_BUF_ENCODE_SIZE] = kani::any();
    let len: usize = kani::any();
    let pos: usize = kani::any();
    kani::assume(len <= WRITE_BUF_ENCODE_SIZE && pos <= len);
    WriteBuf { buf, len, pos, frame }
}

/// [C14.writebuf.buf] the `Buf` view: `buf0[pos..len0] ++ payload`, where the payload (if any) has `r` bytes
/// left, first-chunk bound `cap`, and has been advanced by `adv` so far.
fn view_matches(wb: &W, buf0: &[u8; WRITE_BUF_ENCODE_SIZE], len0: usize, pos: usize, pl: Option<(usize, usize, usize)>) {
    assert!(wb.len == len0 && wb.pos == pos && wb.pos <= wb.len);
    let prem = match pl {
        Some((r, _, _)) => r,
        None => 0,
    };
    assert!(wb.remaining() == (len0 - pos) + prem);
    let c = wb.chunk();
    if pos < len0 {
        // the rest of the header, in place, and only that
        assert!(c.as_ptr() == wb.buf[pos..].as_ptr());
        assert!(c.len() == len0 - pos);
        let k: usize = kani::any();
        kani::assume(k < c.len());
        assert!(c[k] == buf0[pos + k]); // header bytes never modified
        if let Some((r, _, adv)) = pl {
            assert!(payload_state(wb) == Some((r, adv)));
        }
    } else {
        match pl {
            Some((r, cap, adv)) => {
                assert!(payload_state(wb) == Some((r, adv)));
                assert!(c.as_ptr() == MOCK_BYTES.as_ptr());
                assert!(c.len() == if r < cap { r } else { cap });
            }
            None => {
                assert!(c.is_empty());
            }
        }
    }
    assert!((wb.remaining() == 0) == c.is_empty());
}

/// header-only states (frame None or a payload-less frame): two arbitrary advances
fn check_buf_no_payload(mut wb: W) -> (usize, usize, usize) {
    let (buf0, len0, pos0) = (wb.buf, wb.len, wb.pos);
    view_matches(&wb, &buf0, len0, pos0, None);
    let a1: usize = kani::any();
    kani::assume(a1 <= len0 - pos0);
    wb.advance(a1);
    view_matches(&wb, &buf0, len0, pos0 + a1, None);
    let a2: usize = kani::any();
    kani::assume(a2 <= len0 - pos0 - a1);
    wb.advance(a2);
    view_matches(&wb, &buf0, len0, pos0 + a1 + a2, None);
    std::mem::forget(wb);
    (len0 - pos0, a1, a2)
}

// =========================================================================== Part A: the From impls

// vp: props=C14; tag=C14.writebuf.from.streamtype; kind=complete; tier=quick
// WriteBuf::from(StreamType(t)) is varint(t), for every t
#[kani::proof]
#[kani::unwind(10)]
fn c14_writebuf_from_streamtype() {
    let t: u64 = kani::any();
    kani::assume(t < TWO62);
    let wb = W::from(StreamType::from_value(t));
    assert!(wb.frame.is_none());
    let want = spec_bytes_varint(spec_bytes_new(), t);
    assert_fresh(&wb, &want);
    kani::cover!(want.n == 8);
    kani::cover!(want.n == 1);
}

// vp: props=C14; tag=C14.writebuf.from.uni.qpack; kind=complete; tier=quick
// QPACK encoder / decoder streams start with 0x02 / 0x03
#[kani::proof]
#[kani::unwind(10)]
fn c14_writebuf_from_uni_header_qpack() {
    let e = W::from(UniStreamHeader::Encoder);
    assert_fresh(&e, &spec_bytes_varint(spec_bytes_new(), SPEC_ST_QPACK_ENCODER));
    assert!(e.frame.is_none() && e.len == 1 && e.buf[0] == 0x02);
    let d = W::from(UniStreamHeader::Decoder);
    assert_fresh(&d, &spec_bytes_varint(spec_bytes_new(), SPEC_ST_QPACK_DECODER));
    assert!(d.frame.is_none() && d.len == 1 && d.buf[0] == 0x03);
    kani::cover!(true);
}

// vp: props=C14; tag=C14.writebuf.from.uni.control-empty; kind=complete; tier=quick
// the control stream header with no settings: stream type 0x00, then an empty SETTINGS frame 04 00
#[kani::proof]
#[kani::unwind(10)]
#[kani::stub(fastrand::u64, stub_fastrand_u64)]
fn c14_writebuf_from_uni_header_control_empty() {
    let wb = W::from(UniStreamHeader::Control(Settings::default()));
    let want = spec_bytes_varint(spec_bytes_varint(spec_bytes_varint(spec_bytes_new(), SPEC_ST_CONTROL), SPEC_FT_SETTINGS), 0);
    assert!(want.n == 3);
    assert_fresh(&wb, &want);
    assert!(wb.frame.is_none());
    kani::cover!(true);
}

// vp: props=C19,C14; tag=C19.writebuf.wt-uni; kind=complete; tier=quick
// a WebTransport uni stream starts with varint(0x54) ++ varint(session id), for every session id
#[kani::proof]
#[kani::unwind(10)]
fn c19_writebuf_from_wt_uni_header() {
    let id: u64 = kani::any();
    kani::assume(id < TWO62);
    let wb = W::from(UniStreamHeader::WebTransportUni(SessionId::try_from(id).unwrap()));
    assert!(wb.frame.is_none());
    let want = spec_bytes_varint(spec_bytes_varint(spec_bytes_new(), SPEC_WT_UNI_STREAM), id);
    assert!(want.b[0] == 0x40 && want.b[1] == 0x54);
    assert_fresh(&wb, &want);
    kani::cover!(want.n == 10);
    kani::cover!(want.n == 3);
    kani::cover!(id == 8);
}

// vp: props=C19,C14; tag=C19.writebuf.wt-bidi; kind=complete; tier=quick
// a WebTransport bidi stream starts with varint(0x41) ++ varint(session id), for every session id
#[kani::proof]
#[kani::unwind(10)]
fn c19_writebuf_from_wt_bidi_header() {
    let id: u64 = kani::any();
    kani::assume(id < TWO62);
    let wb = W::from(BidiStreamHeader::WebTransportBidi(SessionId::try_from(id).unwrap()));
    assert!(wb.frame.is_none());
    let want = spec_bytes_varint(spec_bytes_varint(spec_bytes_new(), SPEC_WT_BIDI_SIGNAL), id);
    assert!(want.b[0] == 0x40 && want.b[1] == 0x41);
    assert_fresh(&wb, &want);
    kani::cover!(want.n == 10);
    kani::cover!(want.n == 4);
    kani::cover!(id == 4);
}

// vp: props=C19; tag=C19.writebuf.wt-session-of-stream; kind=complete; tier=quick
// end to end for the server's open_bi/open_uni(session.session_id()): the header written for the session
// of CONNECT stream s (any client-initiated bidirectional id) carries s itself
#[kani::proof]
#[kani::unwind(10)]
fn c19_writebuf_header_names_the_connect_stream() {
    let k: u64 = kani::any();
    kani::assume(k < TWO62 / 4);
    let s = k * 4;
    let sid = crate::proto::stream::StreamId::try_from(s).unwrap();
    let wb = W::from(BidiStreamHeader::WebTransportBidi(SessionId::from(sid)));
    assert_fresh(&wb, &spec_bytes_varint(spec_bytes_varint(spec_bytes_new(), SPEC_WT_BIDI_SIGNAL), s));
    let wu = W::from(UniStreamHeader::WebTransportUni(SessionId::from(sid)));
    assert_fresh(&wu, &spec_bytes_varint(spec_bytes_varint(spec_bytes_new(), SPEC_WT_UNI_STREAM), s));
    kani::cover!(s == 0);
    kani::cover!(s == 8);
    kani::cover!(s > 16384);
}

// vp: props=C14,C01; tag=C14.writebuf.from.data; kind=complete; tier=quick
// WriteBuf::from(Frame::Data(p)): header 00 ++ varint(p.remaining()) — the whole payload, not its first
// chunk — and p stored untouched, for every payload length < 2^62
#[kani::proof]
#[kani::unwind(10)]
#[kani::stub(fastrand::u64, stub_fastrand_u64)]
fn c14_writebuf_from_frame_data() {
    let p = any_payload();
    let (rem0, cap) = (p.rem, p.cap);
    let wb = W::from(Frame::Data(p));
    let want = spec_frame_hdr(SPEC_FT_DATA, rem0 as u64);
    assert_fresh(&wb, &want);
    assert!(payload_state(&wb) == Some((rem0, 0)));
    assert!(wb.remaining() == want.n + rem0);
    std::mem::forget(wb);
    kani::cover!(rem0 == 0);
    kani::cover!(rem0 > 4 && cap < 4); // payload longer than its first chunk
    kani::cover!(want.n == 9);
    kani::cover!(want.n == 3);
}

// vp: props=C14; tag=C14.writebuf.from.single-varint; kind=complete; tier=quick
// GOAWAY (sent by shutdown), CANCEL_PUSH, MAX_PUSH_ID: the complete frame type ++ varint(|varint(id)|) ++
// varint(id) sits in the header buffer, for every id
#[kani::proof]
#[kani::unwind(10)]
#[kani::stub(fastrand::u64, stub_fastrand_u64)]
fn c14_writebuf_from_frame_goaway_cancelpush_maxpushid() {
    let id: u64 = kani::any();
    kani::assume(id < TWO62);
    let g = W::from(Frame::Goaway(VarInt::from_u64(id).unwrap()));
    let want = spec_frame_single_varint(SPEC_FT_GOAWAY, id);
    assert_fresh(&g, &want);
    assert!(payload_state(&g).is_none());
    std::mem::forget(g);
    let c = W::from(Frame::CancelPush(PushId::try_from(id).unwrap()));
    assert_fresh(&c, &spec_frame_single_varint(SPEC_FT_CANCEL_PUSH, id));
    std::mem::forget(c);
    let m = W::from(Frame::MaxPushId(PushId::try_from(id).unwrap()));
    assert_fresh(&m, &spec_frame_single_varint(SPEC_FT_MAX_PUSH_ID, id));
    std::mem::forget(m);
    kani::cover!(want.n == 10);
    kani::cover!(want.n == 3);
}

// vp: props=C14; tag=C14.writebuf.from.grease-frame; kind=complete; tier=quick
// the grease frame: type 0x1f*N+0x21 for the N drawn (any N the generator can return), length 6, "grease"
#[kani::proof]
#[kani::unwind(10)]
#[kani::stub(fastrand::u64, stub_fastrand_u64)]
fn c14_writebuf_from_frame_grease() {
    let wb = W::from(Frame::Grease);
    assert!(rand_count() == 1);
    let g = spec_grease_nth(rand_log(0));
    assert!(g < TWO62 as u128);
    let want = spec_bytes_lit(spec_frame_hdr(g as u64, 6), b"grease");
    assert!(want.n <= 15);
    assert_fresh(&wb, &want);
    std::mem::forget(wb);
    kani::cover!(want.n == 15);
    kani::cover!(want.n == 8);
}

// vp: props=C14; tag=C14.writebuf.from.grease-stream; kind=complete; tier=quick
// the grease stream (StreamType::grease(), Frame::Grease): reserved stream type, then one grease frame;
// 23 bytes at most, all inside the 64-byte buffer
#[kani::proof]
#[kani::unwind(10)]
#[kani::stub(fastrand::u64, stub_fastrand_u64)]
fn c14_writebuf_from_grease_stream() {
    let ty = StreamType::grease();
    let wb = W::from((ty, Frame::Grease));
    assert!(rand_count() == 2);
    let st = spec_grease_nth(rand_log(0));
    let ft = spec_grease_nth(rand_log(1));
    assert!(st < TWO62 as u128 && ft < TWO62 as u128);
    let want = spec_bytes_lit(
        spec_bytes_varint(spec_bytes_varint(spec_bytes_varint(spec_bytes_new(), st as u64), ft as u64), 6),
        b"grease",
    );
    assert!(want.n <= 23);
    assert_fresh(&wb, &want);
    std::mem::forget(wb);
    kani::cover!(want.n == 23);
    kani::cover!(want.n == 9);
    kani::cover!(st != ft);
}

// vp: props=C14; tag=C14.writebuf.from.type-and-frame; kind=complete; tier=quick
// (StreamType, Frame::Data): varint(stream type) ++ frame header; the largest such header
// (8 + 1 + 8 = 17 bytes) fits
#[kani::proof]
#[kani::unwind(10)]
#[kani::stub(fastrand::u64, stub_fastrand_u64)]
fn c14_writebuf_from_streamtype_and_data() {
    let t: u64 = kani::any();
    kani::assume(t < TWO62);
    let p = any_payload();
    let rem0 = p.rem;
    let wb = W::from((StreamType::from_value(t), Frame::Data(p)));
    let want = spec_bytes_varint(spec_bytes_varint(spec_bytes_varint(spec_bytes_new(), t), SPEC_FT_DATA), rem0 as u64);
    assert_fresh(&wb, &want);
    assert!(payload_state(&wb) == Some((rem0, 0)));
    std::mem::forget(wb);
    kani::cover!(want.n == 17);
    kani::cover!(want.n == 3);
}

// vp: props=C19,C14; tag=C19.writebuf.wt-frame; kind=complete; tier=quick
// Frame::WebTransportStream(id) as a WriteBuf: varint(0x41) ++ varint(id), no length, no payload
#[kani::proof]
#[kani::unwind(10)]
#[kani::stub(fastrand::u64, stub_fastrand_u64)]
fn c19_writebuf_from_frame_wt_stream() {
    let id: u64 = kani::any();
    kani::assume(id < TWO62);
    let wb = W::from(Frame::WebTransportStream(SessionId::try_from(id).unwrap()));
    let want = spec_bytes_varint(spec_bytes_varint(spec_bytes_new(), SPEC_WT_BIDI_SIGNAL), id);
    assert_fresh(&wb, &want);
    assert!(payload_state(&wb).is_none());
    std::mem::forget(wb);
    kani::cover!(want.n == 10);
}

const HDR_BLOCK_MAX: usize = 80;
static HDR_BLOCK: [u8; HDR_BLOCK_MAX] = [0x5a; HDR_BLOCK_MAX];

// vp: props=C14; tag=C14.writebuf.from.headers; kind=bounded; bound=field section <= 80 bytes (1- and 2-byte length forms); tier=quick
// WriteBuf::from(Frame::Headers(block)): header 01 ++ varint(|block|), block stored untouched.  `Headers`
// holds a real `Bytes`, so its length is bounded by the static array behind it; `WriteBuf` passes
// `len()` to `write_var` (C16.encode: all values).
#[kani::proof]
#[kani::unwind(10)]
#[kani::stub(fastrand::u64, stub_fastrand_u64)]
fn c14_writebuf_from_frame_headers() {
    let n: usize = kani::any();
    kani::assume(n <= HDR_BLOCK_MAX);
    let wb = W::from(Frame::Headers(Bytes::from_static(&HDR_BLOCK[..n])));
    let want = spec_frame_hdr(SPEC_FT_HEADERS, n as u64);
    assert_fresh(&wb, &want);
    assert!(wb.remaining() == want.n + n);
    match &wb.frame {
        Some(Frame::Headers(b)) => {
            assert!(b.len() == n && b.as_ptr() == HDR_BLOCK.as_ptr());
        }
        _ => panic!("frame lost"),
    }
    std::mem::forget(wb);
    kani::cover!(n == 0);
    kani::cover!(want.n == 3);
}

/// content-free encoder: puts `data[..k]` in two pieces (any split), as a sequence of `put`s does
struct MockEnc {
    data: [u8; WRITE_BUF_ENCODE_SIZE],
    j: usize,
    k: usize,
}
impl Encode for MockEnc {
    fn encode<B: BufMut>(&self, buf: &mut B) {
        buf.put_slice(&self.data[..self.j]);
        buf.put_slice(&self.data[self.j..self.k]);
    }
}

// vp: props=C14; tag=C14.writebuf.encode-value; kind=complete; tier=thorough
// WriteBuf::encode_value(e) (the body of From<UniStreamHeader>, From<BidiStreamHeader> and the first half of
// From<(StreamType, Frame)>): for ANY encoder output of k <= 64 - len bytes, those bytes land at
// buf[len..len+k] in order, len grows by k, every other byte and `pos` stay as they were
#[kani::proof]
fn c14_writebuf_encode_value_appends_verbatim() {
    let mut wb = any_state(None);
    let (buf0, len0, pos0) = (wb.buf, wb.len, wb.pos);
    let e = MockEnc { data: kani::any(), j: kani::any(), k: kani::any() };
    kani::assume(e.j <= e.k && e.k <= WRITE_BUF_ENCODE_SIZE - len0);
    let (data, k, j) = (e.data, e.k, e.j);
    wb.encode_value(e);
    assert!(wb.len == len0 + k);
    assert!(wb.pos == pos0);
    assert!(wb.frame.is_none());
    let i: usize = kani::any();
    kani::assume(i < WRITE_BUF_ENCODE_SIZE);
    if i >= len0 && i < len0 + k {
        assert!(wb.buf[i] == data[i - len0]);
    } else {
        assert!(wb.buf[i] == buf0[i]);
    }
    kani::cover!(len0 == 0 && k == 64 && j == 1);
    kani::cover!(len0 == 8 && k == 42 && i == 30);
    kani::cover!(k == 0);
}

// ================================================= Part B: impl Buf for WriteBuf on every representable state

// vp: props=C14; tag=C14.writebuf.buf.header-only; kind=complete; tier=quick
// frame == None (stream headers): any header bytes, any pos <= len <= 64, any two advances
#[kani::proof]
fn c14_writebuf_buf_header_only() {
    let (h, a1, a2) = check_buf_no_payload(any_state(None));
    kani::cover!(h == 64 && a1 == 64);
    kani::cover!(a1 > 0 && a2 > 0 && a1 + a2 < h);
    kani::cover!(h == 0);
    kani::cover!(a1 + a2 == h && a2 > 0);
}

// vp: props=C14; tag=C14.writebuf.buf.payloadless; kind=complete; tier=quick
// frames that live entirely in the header buffer (GOAWAY, grease, SETTINGS): same view, nothing is ever
// taken from a payload that does not exist
#[kani::proof]
#[kani::stub(fastrand::u64, stub_fastrand_u64)]
fn c14_writebuf_buf_payloadless_frames() {
    let id: u64 = kani::any();
    kani::assume(id < TWO62);
    let (h, a1, a2) = check_buf_no_payload(any_state(Some(Frame::Goaway(VarInt::from_u64(id).unwrap()))));
    check_buf_no_payload(any_state(Some(Frame::Grease)));
    check_buf_no_payload(any_state(Some(Frame::Settings(Settings::default()))));
    kani::cover!(h == 10 && a1 == 3 && a2 == 7);
}

// vp: props=C14,C19; tag=C14.writebuf.buf.payloadless2; kind=complete; tier=quick
// ... and the WebTransport signal and the two push-id frames
#[kani::proof]
#[kani::stub(fastrand::u64, stub_fastrand_u64)]
fn c14_writebuf_buf_payloadless_frames_2() {
    let id: u64 = kani::any();
    kani::assume(id < TWO62);
    let (h, a1, a2) =
        check_buf_no_payload(any_state(Some(Frame::WebTransportStream(SessionId::try_from(id).unwrap()))));
    check_buf_no_payload(any_state(Some(Frame::CancelPush(PushId::try_from(id).unwrap()))));
    check_buf_no_payload(any_state(Some(Frame::MaxPushId(PushId::try_from(id).unwrap()))));
    kani::cover!(h == 10 && a1 == 2 && a2 == 8);
}

// vp: props=C14,C01; tag=C14.writebuf.buf.data; kind=complete; tier=quick
// frame == Data(payload): any header bytes, any pos <= len <= 64, any payload length / chunking, any two
// advances: header rest first, then the payload advanced by exactly what went past the header
#[kani::proof]
#[kani::stub(fastrand::u64, stub_fastrand_u64)]
fn c14_writebuf_buf_data_any_two_advances() {
    let p = any_payload();
    let (rem0, cap) = (p.rem, p.cap);
    let mut wb = any_state(Some(Frame::Data(p)));
    let (buf0, len0, pos0) = (wb.buf, wb.len, wb.pos);
    let h = len0 - pos0;
    view_matches(&wb, &buf0, len0, pos0, Some((rem0, cap, 0)));
    let a1: usize = kani::any();
    kani::assume(a1 <= h + rem0);
    wb.advance(a1);
    let h1 = if a1 < h { a1 } else { h }; // part of a1 that fell into the header
    view_matches(&wb, &buf0, len0, pos0 + h1, Some((rem0 - (a1 - h1), cap, a1 - h1)));
    let a2: usize = kani::any();
    kani::assume(a2 <= h + rem0 - a1);
    wb.advance(a2);
    let h2 = if a2 < h - h1 { a2 } else { h - h1 };
    view_matches(
        &wb,
        &buf0,
        len0,
        pos0 + h1 + h2,
        Some((rem0 - (a1 - h1) - (a2 - h2), cap, (a1 - h1) + (a2 - h2))),
    );
    std::mem::forget(wb);
    kani::cover!(a1 > 0 && a2 > 0 && a1 + a2 < h); // both inside the header
    kani::cover!(a1 < h && a1 + a2 > h); // second advance crosses into the payload
    kani::cover!(a1 == h && h > 0 && a2 > 0);
    kani::cover!(a1 > h && a2 > 0 && a1 + a2 < h + rem0); // both inside the payload
    kani::cover!(a1 + a2 == h + rem0 && rem0 > 4 && h == 64);
    kani::cover!(h == 0 && a1 > 0);
}

// vp: props=C14; tag=C14.writebuf.buf.headers; kind=bounded; bound=field section <= 80 bytes; tier=quick
// frame == Headers(real Bytes): header rest first, then the block's own bytes in place, to its end
#[kani::proof]
#[kani::unwind(5)]
#[kani::stub(fastrand::u64, stub_fastrand_u64)]
fn c14_writebuf_buf_headers_any_two_advances() {
    let n: usize = kani::any();
    kani::assume(n <= HDR_BLOCK_MAX);
    let mut wb = any_state(Some(Frame::Headers(Bytes::from_static(&HDR_BLOCK[..n]))));
    let (buf0, len0, pos0) = (wb.buf, wb.len, wb.pos);
    let h = len0 - pos0;
    let total = h + n;
    let mut consumed = 0;
    let mut round = 0;
    while round < 3 {
        assert!(wb.len == len0 && wb.pos <= wb.len);
        assert!(wb.remaining() == total - consumed);
        let c = wb.chunk();
        if consumed < h {
            assert!(wb.pos == pos0 + consumed);
            assert!(c.len() == h - consumed);
            let k: usize = kani::any();
            kani::assume(k < c.len());
            assert!(c[k] == buf0[pos0 + consumed + k]);
        } else {
            assert!(wb.pos == len0);
            assert!(c.len() == total - consumed);
            assert!(c.as_ptr() == HDR_BLOCK[consumed - h..].as_ptr());
        }
        if round < 2 {
            let a: usize = kani::any();
            kani::assume(a <= total - consumed);
            wb.advance(a);
            consumed += a;
        }
        round += 1;
    }
    std::mem::forget(wb);
    kani::cover!(n == 0 && h > 0);
    kani::cover!(consumed == total && n == 80 && h == 64);
    kani::cover!(consumed > h && consumed < total);
}

// ======================================================== Part C: From + Buf composed, for DATA frames

// vp: props=C14; tag=C14.writebuf.data.e2e; kind=complete; tier=thorough
// WriteBuf::from(Frame::Data(p)) then any two advances: what comes out is 00 ++ varint(|p|) ++ p
#[kani::proof]
#[kani::unwind(10)]
#[kani::stub(fastrand::u64, stub_fastrand_u64)]
fn c14_writebuf_data_view_any_two_advances() {
    let p = any_payload();
    let (rem0, cap) = (p.rem, p.cap);
    let mut wb = W::from(Frame::Data(p));
    let want = spec_frame_hdr(SPEC_FT_DATA, rem0 as u64);
    assert_fresh(&wb, &want);
    let (buf0, n) = (wb.buf, want.n);
    let a1: usize = kani::any();
    kani::assume(a1 <= n + rem0);
    wb.advance(a1);
    let h1 = if a1 < n { a1 } else { n };
    view_matches(&wb, &buf0, n, h1, Some((rem0 - (a1 - h1), cap, a1 - h1)));
    let a2: usize = kani::any();
    kani::assume(a2 <= n + rem0 - a1);
    wb.advance(a2);
    let h2 = if a2 < n - h1 { a2 } else { n - h1 };
    view_matches(&wb, &buf0, n, h1 + h2, Some((rem0 - (a1 - h1) - (a2 - h2), cap, (a1 - h1) + (a2 - h2))));
    std::mem::forget(wb);
    kani::cover!(a1 < n && a1 + a2 > n);
    kani::cover!(a1 + a2 == n + rem0 && rem0 > 0 && n == 9);
}

// vp: props=C14,C01; tag=C14.writebuf.data.drain; kind=complete; tier=quick
// the way h3-quinn drains it (write chunk(), advance by what the transport accepted): a partially accepted
// header leaves exactly its rest; then the payload's chunks in order
#[kani::proof]
#[kani::unwind(10)]
#[kani::stub(fastrand::u64, stub_fastrand_u64)]
fn c14_writebuf_data_drain_by_chunks() {
    let p = any_payload();
    let (rem0, cap) = (p.rem, p.cap);
    let mut wb = W::from(Frame::Data(p));
    let want = spec_frame_hdr(SPEC_FT_DATA, rem0 as u64);
    assert_fresh(&wb, &want);
    let (buf0, n) = (wb.buf, want.n);
    view_matches(&wb, &buf0, n, 0, Some((rem0, cap, 0)));
    let acc: usize = kani::any(); // transport accepts only part of the first chunk
    kani::assume(1 <= acc && acc <= wb.chunk().len());
    assert!(acc <= n);
    wb.advance(acc);
    view_matches(&wb, &buf0, n, acc, Some((rem0, cap, 0)));
    if acc < n {
        let l1 = wb.chunk().len();
        assert!(l1 == n - acc);
        wb.advance(l1);
    }
    view_matches(&wb, &buf0, n, n, Some((rem0, cap, 0)));
    let l2 = wb.chunk().len();
    wb.advance(l2);
    view_matches(&wb, &buf0, n, n, Some((rem0 - l2, cap, l2)));
    std::mem::forget(wb);
    kani::cover!(acc == 1 && n == 9 && l2 == 4);
    kani::cover!(acc == n);
    kani::cover!(l2 == 0);
}
