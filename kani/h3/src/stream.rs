// Kani harnesses attached (as a child module) to h3/src/stream.rs — C14 (what h3 hands to the transport),
// C19 (WebTransport stream headers).
//
// Functions under check (real code): `WriteBuf::{encode_stream_type, encode_value, encode_frame_header}`,
// `impl From<StreamType | UniStreamHeader | BidiStreamHeader | Frame<B> | (StreamType, Frame<B>)> for
// WriteBuf<B>`, `impl Encode for UniStreamHeader / BidiStreamHeader`, `impl Buf for WriteBuf<B>`
// (`remaining`, `chunk`, `advance`), together with everything below them (`Frame::encode`, `VarInt::encode`,
// bytes' `BufMut for &mut [u8]`), all compiled from the real crate.
// Spec (kani/_spec.rs): a frame is varint(type) ++ varint(length) ++ payload with length == the payload's
// remaining() (RFC 9114 §7.1); a unidirectional stream starts with varint(stream type) (§6.2); WebTransport
// streams start with varint(0x54 | 0x41) ++ varint(session id).
//
// Payloads are a content-free mock `Buf` (symbolic length < 2^62, symbolic first-chunk length, counts what
// was advanced, chunks recognised by pointer identity): `WriteBuf` never looks inside a payload.
// The frame variant is concrete in every harness (a symbolic discriminant sends CBMC through the drop /
// clone glue of the `Bytes`-holding variants via function pointers and does not finish).
// `fastrand::u64` is stubbed (generic signature repeated) by "any value of the requested range".
// Not here: `UniStreamHeader::Control(settings)` for non-empty `Settings` (needs the C13 / config harnesses:
// Config -> Settings -> bytes, and that those at most 42 bytes fit the 64-byte buffer).
use super::*;
#[path = "/verif/kani/_spec.rs"]
mod spec;
use crate::proto::push::PushId;
use spec::*;
use std::convert::TryFrom;

fn stub_fastrand_u64<R: std::ops::RangeBounds<u64>>(r: R) -> u64 {
    let x: u64 = kani::any();
    kani::assume(r.contains(&x));
    x
}

static MOCK_BYTES: [u8; 4] = [0xa5; 4];

struct MockPayload {
    rem: usize,      // bytes still in the payload
    cap: usize,      // chunk().len() == min(rem, cap), 1 <= cap <= 4
    advanced: usize, // what the wrapper consumed from the payload so far
}
impl Buf for MockPayload {
    fn remaining(&self) -> usize {
        self.rem
    }
    fn chunk(&self) -> &[u8] {
        let n = if self.rem < self.cap { self.rem } else { self.cap };
        &MOCK_BYTES[..n]
    }
    fn advance(&mut self, cnt: usize) {
        assert!(cnt <= self.rem, "payload advanced past its end");
        self.rem -= cnt;
        self.advanced += cnt;
    }
}
fn any_payload() -> MockPayload {
    let rem: usize = kani::any();
    let cap: usize = kani::any();
    // the frame length is a varint: 2^62 bytes or more cannot be framed (write_var would panic)
    kani::assume((rem as u64) < TWO62);
    kani::assume(1 <= cap && cap <= 4);
    MockPayload { rem, cap, advanced: 0 }
}

type W = WriteBuf<MockPayload>;

fn payload_state(wb: &W) -> Option<(usize, usize)> {
    match &wb.frame {
        Some(Frame::Data(p)) => Some((p.rem, p.advanced)),
        _ => None,
    }
}

/// The `Buf` view of `wb` after `consumed` bytes of `want ++ payload` were taken (payload: (rem0, cap)).
fn check_view(wb: &W, want: &SpecBytes, pl: Option<(usize, usize)>, consumed: usize) {
    let n = want.n;
    let rem0 = match pl {
        Some((r, _)) => r,
        None => 0,
    };
    // [C14.writebuf.capacity] the header fits the on-stack buffer and the cursor stays inside it
    assert!(wb.len == n);
    assert!(wb.len <= WRITE_BUF_ENCODE_SIZE);
    assert!(wb.pos <= wb.len);
    assert!(wb.remaining() == n + rem0 - consumed);
    let c = wb.chunk();
    if consumed < n {
        assert!(wb.pos == consumed);
        assert!(c.len() == n - consumed);
        let mut i = 0;
        while i < 24 {
            if i < c.len() {
                assert!(c[i] == want.b[consumed + i]);
            }
            i += 1;
        }
        if pl.is_some() {
            assert!(payload_state(wb) == Some((rem0, 0)));
        }
    } else {
        match pl {
            Some((_, cap)) => {
                let prem = rem0 - (consumed - n);
                assert!(payload_state(wb) == Some((prem, consumed - n)));
                assert!(c.as_ptr() == MOCK_BYTES.as_ptr());
                assert!(c.len() == if prem < cap { prem } else { cap });
            }
            None => {
                assert!(c.is_empty());
            }
        }
    }
    assert!((wb.remaining() == 0) == c.is_empty());
}

/// one arbitrary in-range advance, view checked before and after
fn check_with_one_advance(mut wb: W, want: &SpecBytes, pl: Option<(usize, usize)>) -> usize {
    check_view(&wb, want, pl, 0);
    let total = wb.remaining();
    let a: usize = kani::any();
    kani::assume(a <= total);
    wb.advance(a);
    check_view(&wb, want, pl, a);
    std::mem::forget(wb);
    a
}

// ---------------------------------------------------------------------------------- stream headers

// vp: props=C14; tag=C14.writebuf.streamtype; kind=complete; tier=quick
// WriteBuf::from(StreamType(t)) is varint(t), for every t, under any advance
#[kani::proof]
#[kani::unwind(25)]
fn c14_writebuf_from_streamtype() {
    let t: u64 = kani::any();
    kani::assume(t < TWO62);
    let wb = W::from(StreamType::from_value(t));
    assert!(wb.frame.is_none());
    let want = spec_bytes_varint(spec_bytes_new(), t);
    let a = check_with_one_advance(wb, &want, None);
    kani::cover!(want.n == 8 && a == 3);
    kani::cover!(want.n == 1 && a == 1);
    kani::cover!(a == 0);
}

// vp: props=C14; tag=C14.writebuf.uni.qpack; kind=complete; tier=quick
// QPACK encoder / decoder streams start with 0x02 / 0x03
#[kani::proof]
#[kani::unwind(25)]
fn c14_writebuf_from_uni_header_qpack() {
    let a1 = check_with_one_advance(
        W::from(UniStreamHeader::Encoder),
        &spec_bytes_varint(spec_bytes_new(), SPEC_ST_QPACK_ENCODER),
        None,
    );
    let a2 = check_with_one_advance(
        W::from(UniStreamHeader::Decoder),
        &spec_bytes_varint(spec_bytes_new(), SPEC_ST_QPACK_DECODER),
        None,
    );
    kani::cover!(a1 == 1 && a2 == 0);
}

// vp: props=C14; tag=C14.writebuf.uni.control-empty; kind=complete; tier=quick
// the control stream header with no settings: stream type 0x00, then an empty SETTINGS frame 04 00
#[kani::proof]
#[kani::unwind(25)]
#[kani::stub(fastrand::u64, stub_fastrand_u64)]
fn c14_writebuf_from_uni_header_control_empty() {
    let wb = W::from(UniStreamHeader::Control(Settings::default()));
    let want = spec_bytes_lit(
        spec_bytes_varint(spec_bytes_new(), SPEC_ST_CONTROL),
        &spec_frame_hdr(SPEC_FT_SETTINGS, 0).b[..2],
    );
    assert!(want.n == 3);
    let a = check_with_one_advance(wb, &want, None);
    kani::cover!(a == 2);
}

// vp: props=C19,C14; tag=C19.writebuf.wt-uni; kind=complete; tier=quick
// a WebTransport uni stream starts with varint(0x54) ++ varint(session id), for every session id
#[kani::proof]
#[kani::unwind(25)]
fn c19_writebuf_from_wt_uni_header() {
    let id: u64 = kani::any();
    kani::assume(id < TWO62);
    let wb = W::from(UniStreamHeader::WebTransportUni(SessionId::try_from(id).unwrap()));
    assert!(wb.frame.is_none());
    let want = spec_bytes_varint(spec_bytes_varint(spec_bytes_new(), SPEC_WT_UNI_STREAM), id);
    assert!(want.b[0] == 0x40 && want.b[1] == 0x54);
    let a = check_with_one_advance(wb, &want, None);
    kani::cover!(want.n == 10 && a == 5);
    kani::cover!(want.n == 3 && a == 3);
    kani::cover!(id == 8);
}

// vp: props=C19,C14; tag=C19.writebuf.wt-bidi; kind=complete; tier=quick
// a WebTransport bidi stream starts with varint(0x41) ++ varint(session id), for every session id
#[kani::proof]
#[kani::unwind(25)]
fn c19_writebuf_from_wt_bidi_header() {
    let id: u64 = kani::any();
    kani::assume(id < TWO62);
    let wb = W::from(BidiStreamHeader::WebTransportBidi(SessionId::try_from(id).unwrap()));
    assert!(wb.frame.is_none());
    let want = spec_bytes_varint(spec_bytes_varint(spec_bytes_new(), SPEC_WT_BIDI_SIGNAL), id);
    assert!(want.b[0] == 0x40 && want.b[1] == 0x41);
    let a = check_with_one_advance(wb, &want, None);
    kani::cover!(want.n == 10 && a == 9);
    kani::cover!(want.n == 4);
    kani::cover!(id == 4);
}

// vp: props=C19; tag=C19.writebuf.wt-session-of-stream; kind=complete; tier=quick
// end to end for the server's open_bi/open_uni(session.session_id()): the header written for the session
// of CONNECT stream s carries s itself
#[kani::proof]
#[kani::unwind(25)]
fn c19_writebuf_header_names_the_connect_stream() {
    let k: u64 = kani::any();
    kani::assume(k < TWO62 / 4);
    let s = k * 4; // client-initiated bidirectional
    let sid = crate::proto::stream::StreamId::try_from(s).unwrap();
    let wb = W::from(BidiStreamHeader::WebTransportBidi(SessionId::from(sid)));
    let want = spec_bytes_varint(spec_bytes_varint(spec_bytes_new(), SPEC_WT_BIDI_SIGNAL), s);
    check_view(&wb, &want, None, 0);
    let wu = W::from(UniStreamHeader::WebTransportUni(SessionId::from(sid)));
    let wantu = spec_bytes_varint(spec_bytes_varint(spec_bytes_new(), SPEC_WT_UNI_STREAM), s);
    check_view(&wu, &wantu, None, 0);
    kani::cover!(s == 0);
    kani::cover!(s == 8);
    kani::cover!(s > 16384);
}

// ------------------------------------------------------------------------------------------ frames

// vp: props=C14; tag=C14.writebuf.data; kind=complete; tier=quick
// WriteBuf::from(Frame::Data(p)) == 00 ++ varint(p.remaining()) then p, for every payload length
#[kani::proof]
#[kani::unwind(25)]
#[kani::stub(fastrand::u64, stub_fastrand_u64)]
fn c14_writebuf_from_frame_data() {
    let p = any_payload();
    let (rem0, cap) = (p.rem, p.cap);
    let wb = W::from(Frame::Data(p));
    let want = spec_frame_hdr(SPEC_FT_DATA, rem0 as u64);
    assert!(wb.pos == 0);
    let a = check_with_one_advance(wb, &want, Some((rem0, cap)));
    kani::cover!(rem0 == 0);
    kani::cover!(rem0 > 4 && cap < 4 && a == 0); // payload longer than its first chunk
    kani::cover!(want.n == 9 && a > 9);
    kani::cover!(want.n == 3 && a == 2);
}

// vp: props=C14; tag=C14.writebuf.view; kind=complete; tier=quick
// impl Buf for WriteBuf: after any two advances remaining()/chunk() expose exactly the rest of
// `header ++ payload`: the header bytes first, then the payload, nothing skipped, nothing repeated
#[kani::proof]
#[kani::unwind(25)]
#[kani::stub(fastrand::u64, stub_fastrand_u64)]
fn c14_writebuf_data_view_any_two_advances() {
    let p = any_payload();
    let (rem0, cap) = (p.rem, p.cap);
    let mut wb = W::from(Frame::Data(p));
    let want = spec_frame_hdr(SPEC_FT_DATA, rem0 as u64);
    let n = want.n;
    let total = n + rem0;
    let a1: usize = kani::any();
    kani::assume(a1 <= total);
    wb.advance(a1);
    check_view(&wb, &want, Some((rem0, cap)), a1);
    let a2: usize = kani::any();
    kani::assume(a2 <= total - a1);
    wb.advance(a2);
    check_view(&wb, &want, Some((rem0, cap)), a1 + a2);
    std::mem::forget(wb);
    kani::cover!(a1 > 0 && a2 > 0 && a1 + a2 < n); // both inside the header
    kani::cover!(a1 < n && a1 + a2 > n); // second advance crosses into the payload
    kani::cover!(a1 == n && a2 > 0);
    kani::cover!(a1 > n && a2 > 0 && a1 + a2 < total); // both inside the payload
    kani::cover!(a1 + a2 == total && rem0 > 0 && n == 9);
    kani::cover!(a1 == 0 && a2 == 0);
}

// vp: props=C14; tag=C14.writebuf.drain; kind=complete; tier=quick
// the way h3-quinn drains it (write chunk(), advance by what was accepted): header whole and first, then
// the payload's chunks in order; a partial acceptance of the header leaves its rest
#[kani::proof]
#[kani::unwind(25)]
#[kani::stub(fastrand::u64, stub_fastrand_u64)]
fn c14_writebuf_data_drain_by_chunks() {
    let p = any_payload();
    let (rem0, cap) = (p.rem, p.cap);
    let mut wb = W::from(Frame::Data(p));
    let want = spec_frame_hdr(SPEC_FT_DATA, rem0 as u64);
    let n = want.n;
    check_view(&wb, &want, Some((rem0, cap)), 0);
    // transport accepts only part of the first chunk
    let acc: usize = kani::any();
    kani::assume(1 <= acc && acc <= wb.chunk().len());
    wb.advance(acc);
    check_view(&wb, &want, Some((rem0, cap)), acc);
    // then the rest of that chunk
    let l1 = wb.chunk().len();
    wb.advance(l1);
    let done = acc + l1;
    check_view(&wb, &want, Some((rem0, cap)), done);
    assert!(done >= n); // the header never survives two chunk-sized advances
    let l2 = wb.chunk().len();
    wb.advance(l2);
    check_view(&wb, &want, Some((rem0, cap)), done + l2);
    std::mem::forget(wb);
    kani::cover!(acc == 1 && n == 9 && l2 == 4);
    kani::cover!(acc == n && l1 > 0);
    kani::cover!(l2 == 0);
}

// vp: props=C14; tag=C14.writebuf.goaway; kind=complete; tier=quick
// GOAWAY (sent by shutdown): a complete frame 07 ++ varint(|varint(id)|) ++ varint(id) in the header
// buffer, no payload, for every id
#[kani::proof]
#[kani::unwind(25)]
#[kani::stub(fastrand::u64, stub_fastrand_u64)]
fn c14_writebuf_from_frame_goaway() {
    let id: u64 = kani::any();
    kani::assume(id < TWO62);
    let want = spec_frame_single_varint(SPEC_FT_GOAWAY, id);
    let a = check_with_one_advance(W::from(Frame::Goaway(VarInt::from_u64(id).unwrap())), &want, None);
    kani::cover!(id >= 1 << 30 && a == 10);
    kani::cover!(id == 0 && a == 1);
}

// vp: props=C14; tag=C14.writebuf.cancel-push; kind=complete; tier=quick
#[kani::proof]
#[kani::unwind(25)]
#[kani::stub(fastrand::u64, stub_fastrand_u64)]
fn c14_writebuf_from_frame_cancel_push() {
    let id: u64 = kani::any();
    kani::assume(id < TWO62);
    let want = spec_frame_single_varint(SPEC_FT_CANCEL_PUSH, id);
    let a = check_with_one_advance(W::from(Frame::CancelPush(PushId::try_from(id).unwrap())), &want, None);
    kani::cover!(want.n == 6 && a == 6);
}

// vp: props=C14; tag=C14.writebuf.max-push-id; kind=complete; tier=quick
#[kani::proof]
#[kani::unwind(25)]
#[kani::stub(fastrand::u64, stub_fastrand_u64)]
fn c14_writebuf_from_frame_max_push_id() {
    let id: u64 = kani::any();
    kani::assume(id < TWO62);
    let want = spec_frame_single_varint(SPEC_FT_MAX_PUSH_ID, id);
    let a = check_with_one_advance(W::from(Frame::MaxPushId(PushId::try_from(id).unwrap())), &want, None);
    kani::cover!(want.n == 4 && a == 0);
}

// vp: props=C14; tag=C14.writebuf.grease-frame; kind=complete; tier=quick
// the grease frame: reserved type (any value the generator can return), length 6, "grease"; <= 15 bytes
#[kani::proof]
#[kani::unwind(25)]
#[kani::stub(fastrand::u64, stub_fastrand_u64)]
fn c14_writebuf_from_frame_grease() {
    let wb = W::from(Frame::Grease);
    let g = spec_varint_dec(&wb.buf[..wb.len]).unwrap().0;
    assert!(spec_is_grease(g) && g < TWO62 && !spec_is_h2_reserved_frame_type(g));
    let want = spec_bytes_lit(spec_frame_hdr(g, 6), b"grease");
    assert!(want.n <= 15);
    let a = check_with_one_advance(wb, &want, None);
    kani::cover!(want.n == 15 && a == 9);
    kani::cover!(want.n == 8);
}

// vp: props=C14; tag=C14.writebuf.grease-stream; kind=complete; tier=quick
// the grease stream: reserved stream type, then one grease frame — 23 bytes at most, all in the buffer
#[kani::proof]
#[kani::unwind(25)]
#[kani::stub(fastrand::u64, stub_fastrand_u64)]
fn c14_writebuf_from_grease_stream() {
    let wb = W::from((StreamType::grease(), Frame::Grease));
    let (st, sl) = spec_varint_dec(&wb.buf[..wb.len]).unwrap();
    assert!(spec_is_grease(st) && st < TWO62);
    let ft = spec_varint_dec(&wb.buf[sl..wb.len]).unwrap().0;
    assert!(spec_is_grease(ft) && ft < TWO62 && !spec_is_h2_reserved_frame_type(ft));
    let want = spec_bytes_lit(
        spec_bytes_varint(spec_bytes_varint(spec_bytes_varint(spec_bytes_new(), st), ft), 6),
        b"grease",
    );
    assert!(want.n <= 23);
    check_view(&wb, &want, None, 0);
    std::mem::forget(wb);
    kani::cover!(want.n == 23);
    kani::cover!(want.n == 9);
    kani::cover!(st != ft);
}

// vp: props=C14; tag=C14.writebuf.type-and-frame; kind=complete; tier=quick
// (StreamType, Frame::Data): varint(stream type) ++ frame header, then the payload; the largest header a
// DATA frame can have (8 + 1 + 8 = 17 bytes) fits
#[kani::proof]
#[kani::unwind(25)]
#[kani::stub(fastrand::u64, stub_fastrand_u64)]
fn c14_writebuf_from_streamtype_and_data() {
    let t: u64 = kani::any();
    kani::assume(t < TWO62);
    let p = any_payload();
    let (rem0, cap) = (p.rem, p.cap);
    let wb = W::from((StreamType::from_value(t), Frame::Data(p)));
    let want = spec_bytes_varint(spec_bytes_varint(spec_bytes_varint(spec_bytes_new(), t), SPEC_FT_DATA), rem0 as u64);
    let a = check_with_one_advance(wb, &want, Some((rem0, cap)));
    kani::cover!(want.n == 17 && a == 17 && rem0 > 0);
    kani::cover!(want.n == 3 && a == 4);
}

// vp: props=C19,C14; tag=C19.writebuf.wt-frame; kind=complete; tier=quick
// Frame::WebTransportStream(id) as a WriteBuf: varint(0x41) ++ varint(id), no length, no payload
#[kani::proof]
#[kani::unwind(25)]
#[kani::stub(fastrand::u64, stub_fastrand_u64)]
fn c19_writebuf_from_frame_wt_stream() {
    let id: u64 = kani::any();
    kani::assume(id < TWO62);
    let wb = W::from(Frame::WebTransportStream(SessionId::try_from(id).unwrap()));
    let want = spec_bytes_varint(spec_bytes_varint(spec_bytes_new(), SPEC_WT_BIDI_SIGNAL), id);
    let a = check_with_one_advance(wb, &want, None);
    kani::cover!(want.n == 10 && a == 2);
}

// ------------------------------------------------------------------- HEADERS (payload is a real `Bytes`)

const HDR_BLOCK_MAX: usize = 80;
static HDR_BLOCK: [u8; HDR_BLOCK_MAX] = [0x5a; HDR_BLOCK_MAX];

// vp: props=C14; tag=C14.writebuf.headers; kind=bounded; bound=field section <= 80 bytes (1- and 2-byte length forms); tier=quick
// WriteBuf::from(Frame::Headers(block)) == 01 ++ varint(|block|) then the block's own bytes, in place, under
// any two advances.  `Frame::Headers` holds a real `Bytes`, so this one is bounded by the static array
// behind it; nothing in `WriteBuf` depends on the payload's size beyond `remaining()`.
#[kani::proof]
#[kani::unwind(25)]
#[kani::stub(fastrand::u64, stub_fastrand_u64)]
fn c14_writebuf_headers_view_any_two_advances() {
    let n: usize = kani::any();
    kani::assume(n <= HDR_BLOCK_MAX);
    let mut wb = W::from(Frame::Headers(Bytes::from_static(&HDR_BLOCK[..n])));
    let want = spec_frame_hdr(SPEC_FT_HEADERS, n as u64);
    let h = want.n;
    assert!(wb.len == h && wb.pos == 0);
    let total = h + n;
    let mut consumed = 0;
    let mut round = 0;
    while round < 3 {
        assert!(wb.remaining() == total - consumed);
        let c = wb.chunk();
        if consumed < h {
            assert!(c.len() == h - consumed);
            let mut i = 0;
            while i < 3 {
                if i < c.len() {
                    assert!(c[i] == want.b[consumed + i]);
                }
                i += 1;
            }
        } else {
            // the block itself, from where we are, to its end
            assert!(c.len() == total - consumed);
            assert!(c.as_ptr() == HDR_BLOCK[consumed - h..].as_ptr());
        }
        if round < 2 {
            let a: usize = kani::any();
            kani::assume(a <= total - consumed);
            wb.advance(a);
            consumed += a;
        }
        round += 1;
    }
    std::mem::forget(wb);
    kani::cover!(n == 0);
    kani::cover!(h == 3 && consumed == total);
    kani::cover!(consumed > h && consumed < total);
    kani::cover!(consumed == 1);
}
