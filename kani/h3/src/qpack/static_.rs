// Kani harnesses attached (as a child module) to h3/src/qpack/static_.rs — C11 (QPACK static table).
// Functions under check (the real ones): StaticTable::{get,find,find_name} and the PREDEFINED_HEADERS
// table, against SPEC_STATIC_TABLE — an independent transcription of RFC 9204 Appendix A
// (/verif/design_probes/rfc9204_static_table.txt).  A wrong row used symmetrically by `get` and `find`
// (invisible to the repository's round-trip tests) fails here because the oracle is the RFC's table.
use super::*;
#[path = "/verif/kani/_spec.rs"]
mod spec;
use spec::*;

/// get(i) is entry i of RFC 9204 App. A, for lo <= i < hi (concrete enumeration: a symbolic index does
/// not finish, DESIGN §2)
fn check_get_range(lo: usize, hi: usize) {
    let mut i = lo;
    while i < hi {
        match StaticTable::get(i) {
            Ok(f) => {
                assert!(spec_bytes_eq(&f.name, SPEC_STATIC_TABLE[i].0));
                assert!(spec_bytes_eq(&f.value, SPEC_STATIC_TABLE[i].1));
                // size bound the Verus unit (qpack_stateless) uses for its overflow argument
                assert!(f.name.len() + f.value.len() <= 100 && f.mem_size() <= 132);
            }
            Err(_) => {
                assert!(false);
            }
        }
        i += 1;
    }
}

/// For every RFC entry i in [lo, hi): find(entry) == Some(j) => RFC entry j == entry (j == i since the
/// RFC pairs are unique), and find_name(name) == Some(k) => RFC entry k has that name.
/// Returns how many of them were found at all (completeness is not an RFC obligation: cover only).
fn check_find_range(lo: usize, hi: usize) -> usize {
    let mut hits = 0;
    let mut i = lo;
    while i < hi {
        let (n, v) = SPEC_STATIC_TABLE[i];
        let f = HeaderField { name: Cow::Borrowed(n), value: Cow::Borrowed(v) };
        match StaticTable::find(&f) {
            Some(j) => {
                assert!(j == i);
                hits += 1;
            }
            None => {}
        }
        match StaticTable::find_name(n) {
            Some(k) => {
                assert!(spec_static_name_is(k, n));
                assert!(k <= i); // nothing depends on it, but the first entry of a name is the natural choice
                hits += 1;
            }
            None => {}
        }
        i += 1;
    }
    hits
}

// vp: props=C11; tag=C11.static.get; kind=complete; tier=quick
#[kani::proof]
#[kani::unwind(56)]
fn c11_static_get_00_24() {
    check_get_range(0, 25);
    kani::cover!(true);
}

// vp: props=C11; tag=C11.static.get; kind=complete; tier=quick
#[kani::proof]
#[kani::unwind(56)]
fn c11_static_get_25_49() {
    check_get_range(25, 50);
    kani::cover!(true);
}

// vp: props=C11; tag=C11.static.get; kind=complete; tier=quick
#[kani::proof]
#[kani::unwind(56)]
fn c11_static_get_50_74() {
    check_get_range(50, 75);
    kani::cover!(true);
}

// vp: props=C11; tag=C11.static.get; kind=complete; tier=quick
#[kani::proof]
#[kani::unwind(56)]
fn c11_static_get_75_98() {
    check_get_range(75, 99);
    kani::cover!(true);
}

// vp: props=C11,C06; tag=C11.static.range; kind=complete; tier=quick
// every index >= 99 (all of usize) is refused with Unknown(index); the table has exactly 99 rows
#[kani::proof]
fn c11_static_get_out_of_range() {
    let i: usize = kani::any();
    kani::assume(i >= 99);
    assert!(StaticTable::get(i) == Err(Error::Unknown(i)));
    assert!(PREDEFINED_HEADERS.len() == 99);
    kani::cover!(i == 99);
    kani::cover!(i == usize::MAX);
}

// vp: props=C11; tag=C11.static.find; kind=complete; tier=quick
#[kani::proof]
#[kani::unwind(56)]
fn c11_static_find_00_24() {
    let hits = check_find_range(0, 25);
    kani::cover!(hits == 50);
}

// vp: props=C11; tag=C11.static.find; kind=complete; tier=quick
#[kani::proof]
#[kani::unwind(56)]
fn c11_static_find_25_49() {
    let hits = check_find_range(25, 50);
    kani::cover!(hits == 50);
}

// vp: props=C11; tag=C11.static.find; kind=complete; tier=quick
#[kani::proof]
#[kani::unwind(56)]
fn c11_static_find_50_74() {
    let hits = check_find_range(50, 75);
    kani::cover!(hits == 50);
}

// vp: props=C11; tag=C11.static.find; kind=complete; tier=quick
#[kani::proof]
#[kani::unwind(56)]
fn c11_static_find_75_98() {
    let hits = check_find_range(75, 99);
    kani::cover!(hits == 48);
}

/// view a harness-local byte slice as `'static` for the duration of one call (HeaderField wants
/// Cow<'static, [u8]>; Cow::Owned would drag a Vec into the model)
fn as_static(s: &[u8]) -> &'static [u8] {
    unsafe { std::mem::transmute::<&[u8], &'static [u8]>(s) }
}

/// No false hit, for every name of <= nmax and every value of <= vmax bytes (contents symbolic, the
/// lengths enumerated concretely so that each literal arm of the two `match`es is decided by its length
/// first): find(name, value) == Some(j) only if RFC entry j is exactly (name, value);
/// find_name(name) == Some(k) only if RFC entry k has exactly that name.
fn check_no_false_hit(nb: &[u8], vb: &[u8], nmax: usize, vmax: usize) -> (usize, usize) {
    let mut pair_hits = 0;
    let mut name_hits = 0;
    let mut nl = 0;
    while nl <= nmax {
        let name = &nb[..nl];
        match StaticTable::find_name(name) {
            Some(k) => {
                let mut ok = false;
                let mut i = 0;
                while i < 99 {
                    let n = SPEC_STATIC_TABLE[i].0;
                    if n.len() == nl {
                        if k == i && spec_bytes_eq(n, name) {
                            ok = true;
                        }
                    }
                    i += 1;
                }
                assert!(ok);
                name_hits += 1;
            }
            None => {}
        }
        let mut vl = 0;
        while vl <= vmax {
            let value = &vb[..vl];
            let f = HeaderField { name: Cow::Borrowed(as_static(name)), value: Cow::Borrowed(as_static(value)) };
            match StaticTable::find(&f) {
                Some(j) => {
                    let mut ok = false;
                    let mut i = 0;
                    while i < 99 {
                        let (n, v) = SPEC_STATIC_TABLE[i];
                        if n.len() == nl && v.len() == vl {
                            if j == i && spec_bytes_eq(n, name) && spec_bytes_eq(v, value) {
                                ok = true;
                            }
                        }
                        i += 1;
                    }
                    assert!(ok);
                    pair_hits += 1;
                }
                None => {}
            }
            vl += 1;
        }
        nl += 1;
    }
    (pair_hits, name_hits)
}

// vp: props=C11; tag=C11.static.nofalsehit; kind=bounded; bound=name <= 3 bytes, value <= 1 byte; tier=quick
#[kani::proof]
#[kani::unwind(100)]
fn c11_static_no_false_hit_short() {
    let nb: [u8; 3] = kani::any();
    let vb: [u8; 1] = kani::any();
    let (ph, nh) = check_no_false_hit(&nb, &vb, 3, 1);
    kani::cover!(ph == 1 && nh == 1 && nb[0] == b'a'); // ("age", "0")
    kani::cover!(nh == 1 && ph == 0); // "age" with another value
    kani::cover!(ph == 0 && nh == 0);
}

/// No false hit on the length shapes of the RFC table: for each RFC entry i in [lo, hi), a query with
/// the same name length and value length but fully symbolic content: find == Some(j) only if RFC entry j
/// equals the query, find_name == Some(k) only if RFC entry k has the queried name.  (All 34 x 55 length
/// pairs in one harness ran out of budget: 17 GB after 36 min.)
fn check_no_false_hit_shapes(lo: usize, hi: usize) -> usize {
    let nb: [u8; 32] = kani::any();
    let vb: [u8; 53] = kani::any();
    let mut hits = 0;
    let mut e = lo;
    while e < hi {
        let nl = SPEC_STATIC_TABLE[e].0.len();
        let vl = SPEC_STATIC_TABLE[e].1.len();
        let name = &nb[..nl];
        let value = &vb[..vl];
        match StaticTable::find_name(name) {
            Some(k) => {
                let mut ok = false;
                let mut i = 0;
                while i < 99 {
                    let n = SPEC_STATIC_TABLE[i].0;
                    if n.len() == nl {
                        if k == i && spec_bytes_eq(n, name) {
                            ok = true;
                        }
                    }
                    i += 1;
                }
                assert!(ok);
            }
            None => {}
        }
        let f = HeaderField { name: Cow::Borrowed(as_static(name)), value: Cow::Borrowed(as_static(value)) };
        match StaticTable::find(&f) {
            Some(j) => {
                let mut ok = false;
                let mut i = 0;
                while i < 99 {
                    let (n, v) = SPEC_STATIC_TABLE[i];
                    if n.len() == nl && v.len() == vl {
                        if j == i && spec_bytes_eq(n, name) && spec_bytes_eq(v, value) {
                            ok = true;
                        }
                    }
                    i += 1;
                }
                assert!(ok);
                hits += 1;
            }
            None => {}
        }
        e += 1;
    }
    hits
}

// vp: props=C11; tag=C11.static.nofalsehit; kind=bounded; bound=length shapes of RFC entries 0..16; tier=thorough
#[kani::proof]
#[kani::unwind(100)]
fn c11_static_no_false_hit_shapes_00_16() {
    let hits = check_no_false_hit_shapes(0, 17);
    kani::cover!(hits >= 1);
    kani::cover!(hits == 0);
}

// vp: props=C11; tag=C11.static.nofalsehit; kind=bounded; bound=length shapes of RFC entries 17..33; tier=thorough
#[kani::proof]
#[kani::unwind(100)]
fn c11_static_no_false_hit_shapes_17_33() {
    let hits = check_no_false_hit_shapes(17, 34);
    kani::cover!(hits >= 1);
    kani::cover!(hits == 0);
}

// vp: props=C11; tag=C11.static.nofalsehit; kind=bounded; bound=length shapes of RFC entries 34..50; tier=thorough
#[kani::proof]
#[kani::unwind(100)]
fn c11_static_no_false_hit_shapes_34_50() {
    let hits = check_no_false_hit_shapes(34, 51);
    kani::cover!(hits >= 1);
    kani::cover!(hits == 0);
}

// vp: props=C11; tag=C11.static.nofalsehit; kind=bounded; bound=length shapes of RFC entries 51..67; tier=thorough
#[kani::proof]
#[kani::unwind(100)]
fn c11_static_no_false_hit_shapes_51_67() {
    let hits = check_no_false_hit_shapes(51, 68);
    kani::cover!(hits >= 1);
    kani::cover!(hits == 0);
}

// vp: props=C11; tag=C11.static.nofalsehit; kind=bounded; bound=length shapes of RFC entries 68..84; tier=thorough
#[kani::proof]
#[kani::unwind(100)]
fn c11_static_no_false_hit_shapes_68_84() {
    let hits = check_no_false_hit_shapes(68, 85);
    kani::cover!(hits >= 1);
    kani::cover!(hits == 0);
}

// vp: props=C11; tag=C11.static.nofalsehit; kind=bounded; bound=length shapes of RFC entries 85..98; tier=thorough
#[kani::proof]
#[kani::unwind(100)]
fn c11_static_no_false_hit_shapes_85_98() {
    let hits = check_no_false_hit_shapes(85, 99);
    kani::cover!(hits >= 1);
    kani::cover!(hits == 0);
}
