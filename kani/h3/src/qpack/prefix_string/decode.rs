// Kani harnesses attached to h3/src/qpack/prefix_string/decode.rs — C15 (Huffman decoding, RFC 7541 §5.2
// and Appendix B), C06.
//
// Oracle: `spec_huff_step` of /verif/kani/_spec.rs — the canonical Huffman code derived from the Appendix B
// code lengths (SPEC_HUFF_LEN), searched linearly; nothing of it is taken from this file's trie.
//
// The per-symbol step that the string decoder repeats is `DecodeIter::next` = `HPACK_STRING.decode_next`
// + mapping of the result.  It is checked on a window of WIN bytes with symbolic contents, symbolic length
// 0..=WIN and a symbolic start position anywhere in the first byte, reached through *any* (bit, count) state
// that a previous step can leave behind.  WIN = 5 holds the longest code (30 bits) from any start bit
// (7 + 30 <= 40), so every symbol and every way of running out of input is covered: complete per step, for
// a window that starts in byte 0.  That the step at byte k of a longer input behaves like the step at byte 0
// of input[k..] (the code uses `byte` only as `byte*8 + ..` and `byte + 1` against `input.len()`) is checked
// for k = 1, 2 in the thorough tier and otherwise read off the code; inputs are shorter than 2^28 bytes
// (u32 bit positions, see c15_huff_read_bits).
// The recursion through the nested tables is 14 deep; unwind(16) with unwinding assertions proves that bound.
use super::*;
#[path = "/verif/kani/_spec.rs"]
mod spec;
use spec::*;

const WIN: usize = 5;

/// Any window state (byte 0, bit, count) whose end - the first bit of the next symbol - lies in byte 0.
/// decode_next only uses the state through `forwards`, which depends on bit + count alone
/// (c15_bitwin_forwards proves that for all field values), so states ending in a later byte are the same
/// situation shifted by whole bytes (c15_huff_decode_next_at_offset checks shifts by 1 and 2 bytes).
fn any_state() -> (BitWindow, usize) {
    let bit: u32 = kani::any();
    let count: u32 = kani::any();
    kani::assume(bit < 8 && count < 8 && bit + count < 8);
    (BitWindow { byte: 0, bit, count }, (bit + count) as usize)
}
fn end_of(w: &BitWindow) -> usize {
    w.byte as usize * 8 + w.bit as usize + w.count as usize
}

// vp: props=C15,C06; tag=C15.huff.read_bits; kind=complete; tier=quick
// read_bits(src, byte, bit, len) == Ok(bits [8*byte+bit, +len) of the big-endian bit string) exactly when
// 1 <= len <= 8 and the range lies inside src; Err(()) otherwise; no index / shift / arithmetic failure.
// src: 0..=5 symbolic bytes; offsets symbolic (bit_offset may exceed 8 as the doc comment allows).
#[kani::proof]
#[kani::unwind(10)]
fn c15_huff_read_bits() {
    let arr: [u8; 5] = kani::any();
    let n: usize = kani::any();
    kani::assume(n <= 5);
    let byte_offset: u32 = kani::any();
    let bit_offset: u32 = kani::any();
    let len: u32 = kani::any();
    // no u32 overflow in `byte_offset * 8 + bit_offset + len`: positions below 2^28 bytes
    kani::assume(byte_offset < (1 << 28) && bit_offset < (1 << 28));
    let res = read_bits(&arr[..n], byte_offset, bit_offset, len);
    let pos = byte_offset as usize * 8 + bit_offset as usize;
    if 1 <= len && len <= 8 && pos + len as usize <= 8 * n {
        assert!(res == Ok(spec_bits(&arr[..n], pos, len as usize) as u8), "C15.huff.read_bits: value");
    } else {
        assert!(res == Err(()), "C15.huff.read_bits: out of range refused");
    }
    kani::cover!(res.is_ok() && bit_offset > 8 && len == 8 && pos % 8 == 3);
    kani::cover!(res.is_ok() && pos + len as usize == 40);
    kani::cover!(res.is_err() && len == 8 && pos == 33 && n == 5);
}

// decode_next returns symbol c and advances by len(c)  <=>  the window starts with spec_code(c), c != EOS:
//  * spec says Sym{c, l} (the code of c is complete in the window)  =>  Ok(Some(c)), new position = old + l,
//    state normalised (bit < 8);
//  * Ok(Some(c)) is returned only in that case (so never for EOS, never for a cut-off code);
//  * a valid end (0..=7 one-bits left)  =>  Ok(None): valid strings are accepted;
//  * never a panic, whatever the window holds.
// Which *invalid* ends are rejected is the business of the c15_huff_eof_* harnesses.
fn decode_next_case<const N: usize>(max_base: u32) {
    let arr: [u8; N] = kani::any();
    let n: usize = kani::any();
    kani::assume(n <= N);
    let (mut pos, off) = any_state();
    let base: u32 = kani::any();
    kani::assume(base <= max_base);
    pos.byte = base;
    let start = base as usize * 8 + off;
    kani::assume(start <= 8 * n);
    let want = spec_huff_step(&arr[..n], start);
    let res = HPACK_STRING.decode_next(&mut pos, &arr[..n]);
    match want {
        SpecHuffStep::Sym { sym, len } => {
            assert!(matches!(res, Ok(Some(x)) if x == sym), "C15.huff.decode.symbol: the symbol whose code starts the window");
            assert!(end_of(&pos) == start + len as usize, "C15.huff.decode.advance: advanced by the code length");
            assert!(pos.bit < 8);
        }
        SpecHuffStep::Eos => {
            assert!(!matches!(res, Ok(Some(_))), "C15.huff.decode.eos: EOS never yields a symbol");
        }
        SpecHuffStep::End { pad_ok } => {
            assert!(!matches!(res, Ok(Some(_))), "C15.huff.decode.symbol: no symbol from a cut-off code");
            if pad_ok {
                assert!(matches!(res, Ok(None)), "C15.huff.decode.end: valid padding ends the string");
            }
        }
    }
    kani::cover!(matches!(want, SpecHuffStep::Sym { len: 30, .. }) && off == 7 && base == max_base);
    kani::cover!(matches!(want, SpecHuffStep::Sym { len: 5, .. }) && n == base as usize + 1);
    kani::cover!(matches!(want, SpecHuffStep::End { pad_ok: true }) && n == base as usize + 1 && off == 3);
}

// Directly on the private `HPACK_STRING.decode_next`.  Thorough tier only because the quick tier already checks
// the same contract one level up, through `DecodeIter::next` (c15_huff_iter_next), and each of these runs ~60 s.
// vp: props=C15,C06; tag=C15.huff.decode.symbol.direct; kind=complete; tier=thorough
#[kani::proof]
#[kani::unwind(16)]
fn c15_huff_decode_next_symbol() {
    decode_next_case::<WIN>(0);
}

// vp: props=C15,C06; tag=C15.huff.decode.symbol.offset; kind=complete; tier=thorough
// the same contract with the window 0, 1 or 2 bytes into a 7-byte input: evidence for the translation
// invariance (in `byte` and `input.len()`) that carries the per-window result to any position of a long
// string.  Complete for these three offsets; the invariance for larger offsets is read off the code
// (read_bits and check_eof use `byte` only in `byte*8 + ..` and `byte + 1` compared with the length).
#[kani::proof]
#[kani::unwind(16)]
fn c15_huff_decode_next_at_offset() {
    decode_next_case::<7>(2);
}

/// A `Vec` that views the first `n` bytes of `arr` without allocating (Kani cannot afford allocation +
/// copy here: 200 s instead of 60 s).  Never dropped, never grown.
fn view_vec(arr: &mut [u8; WIN], n: usize) -> std::mem::ManuallyDrop<Vec<u8>> {
    std::mem::ManuallyDrop::new(unsafe { Vec::from_raw_parts(arr.as_mut_ptr(), n, WIN) })
}
/// One step of the public iterator on `content`, starting from window state `pos`.
fn iter_step(content: &Vec<u8>, pos: BitWindow) -> Option<Result<u8, Error>> {
    let mut it = DecodeIter { bit_pos: pos, content };
    it.next()
}

// vp: props=C15; tag=C15.huff.eof.len; kind=complete; tier=thorough
// (thorough tier: KNOWN FINDING - the repository's own tests demand this behaviour, see findings/C15_huffman_long_padding_and_eos)
// RFC 7541 §5.2 "A padding strictly longer than 7 bits MUST be treated as a decoding error": when 8 or more
// one-bits (and nothing else) follow the last symbol, the step must report an error, not the end.
#[kani::proof]
#[kani::unwind(16)]
fn c15_huff_eof_padding_too_long() {
    let mut arr: [u8; WIN] = kani::any();
    let n: usize = kani::any();
    kani::assume(n <= WIN);
    let (pos, start) = any_state();
    kani::assume(start <= 8 * n);
    let avail = 8 * n - start;
    kani::assume(avail >= 8 && avail < 30); // thirty ones are EOS: c15_huff_eof_eos_rejected
    kani::assume(spec_window32(&arr[..n], start) >> (32 - avail) == (1u32 << avail) - 1); // all ones
    assert!(spec_huff_step(&arr[..n], start) == SpecHuffStep::End { pad_ok: false });
    kani::cover!(avail == 8);
    kani::cover!(avail == 29);
    let v = view_vec(&mut arr, n);
    let res = iter_step(&v, pos);
    assert!(matches!(res, Some(Err(_))), "C15.huff.eof.len: padding of 8 or more bits accepted");
}

// vp: props=C15; tag=C15.huff.eof.ones; kind=complete; tier=quick
// RFC 7541 §5.2 "A padding not corresponding to the most significant bits of the code for the EOS symbol
// MUST be treated as a decoding error": bits after the last symbol that are not all ones => error.
#[kani::proof]
#[kani::unwind(16)]
fn c15_huff_eof_padding_not_ones() {
    let mut arr: [u8; WIN] = kani::any();
    let n: usize = kani::any();
    kani::assume(n <= WIN);
    let (pos, start) = any_state();
    kani::assume(start <= 8 * n);
    let avail = 8 * n - start;
    kani::assume(avail >= 1 && avail < 30); // 30 or more bits always hold a complete code
    kani::assume(spec_huff_step(&arr[..n], start) == SpecHuffStep::End { pad_ok: false });
    kani::assume(spec_window32(&arr[..n], start) >> (32 - avail) != (1u32 << avail) - 1); // a zero bit
    kani::cover!(avail == 5);
    kani::cover!(avail == 21);
    let v = view_vec(&mut arr, n);
    let res = iter_step(&v, pos);
    assert!(matches!(res, Some(Err(_))), "C15.huff.eof.ones: padding that is not a prefix of EOS accepted");
}

// vp: props=C15; tag=C15.huff.eof.eos; kind=complete; tier=thorough
// (thorough tier: KNOWN FINDING - the repository's own tests demand this behaviour, see findings/C15_huffman_long_padding_and_eos)
// RFC 7541 §5.2 "A Huffman-encoded string literal containing the EOS symbol MUST be treated as a decoding
// error": thirty one-bits at a symbol boundary => error, whatever follows.
#[kani::proof]
#[kani::unwind(16)]
fn c15_huff_eof_eos_rejected() {
    let mut arr: [u8; WIN] = kani::any();
    let n: usize = kani::any();
    kani::assume(n <= WIN);
    let (pos, start) = any_state();
    kani::assume(start + 30 <= 8 * n);
    kani::assume(spec_window32(&arr[..n], start) >> 2 == 0x3fff_ffff); // thirty ones
    assert!(spec_huff_step(&arr[..n], start) == SpecHuffStep::Eos);
    kani::cover!(n == 4 && start == 0);
    kani::cover!(n == 5 && start == 7);
    let v = view_vec(&mut arr, n);
    let res = iter_step(&v, pos);
    assert!(matches!(res, Some(Err(_))), "C15.huff.eof.eos: EOS inside the string accepted");
}

// vp: props=C15,C06; tag=C15.huff.eof.tail; kind=complete; tier=thorough
// The part of the §5.2 rule that the pinned tree does enforce, kept as its own obligation so that a regression
// is not hidden behind the three findings above: (a) fewer than 5 bits left (no code is that short) and not all
// ones => error; (b) EOS followed by at least one more whole octet => error.
#[kani::proof]
#[kani::unwind(16)]
fn c15_huff_eof_short_tail_and_eos() {
    let mut arr: [u8; WIN] = kani::any();
    let n: usize = kani::any();
    kani::assume(n <= WIN);
    let (pos, start) = any_state();
    kani::assume(start <= 8 * n);
    let avail = 8 * n - start;
    let w = spec_window32(&arr[..n], start);
    let short_tail = 1 <= avail && avail <= 4 && (w >> (32 - avail)) != (1u32 << avail) - 1;
    let eos_then_more = avail >= 38 && (w >> 2) == 0x3fff_ffff;
    kani::assume(short_tail || eos_then_more);
    let want = spec_huff_step(&arr[..n], start);
    assert!(want == SpecHuffStep::End { pad_ok: false } || want == SpecHuffStep::Eos);
    kani::cover!(short_tail && avail == 4);
    kani::cover!(short_tail && avail == 1);
    kani::cover!(eos_then_more && start == 2);
    let v = view_vec(&mut arr, n);
    let res = iter_step(&v, pos);
    assert!(matches!(res, Some(Err(_))), "C15.huff.eof.tail: bad tail / EOS accepted");
}

// vp: props=C15,C06; tag=C15.huff.decode.symbol; kind=complete; tier=quick
// THE per-symbol contract, on `DecodeIter::next` (the step `prefix_string::decode` repeats; it calls the private
// `HPACK_STRING.decode_next`), for every window / length / start state (see header):
//  * the window starts with the complete code of c != EOS  <=>  Some(Ok(c)), and then the iterator's own
//    position has advanced by exactly len(c);
//  * 0..=7 one-bits left  =>  None (valid strings are accepted);
//  * EOS or a cut-off code  =>  never Some(Ok(_))   (that it is Some(Err(_)): c15_huff_eof_*).
// hpack_decode() starts at position 0.  No panic for any window (C06).
#[kani::proof]
#[kani::unwind(16)]
fn c15_huff_iter_next() {
    let mut arr: [u8; WIN] = kani::any();
    let n: usize = kani::any();
    kani::assume(n <= WIN);
    let (pos, start) = any_state();
    kani::assume(start <= 8 * n);
    let want = spec_huff_step(&arr[..n], start);
    let v = view_vec(&mut arr, n);
    let mut it = DecodeIter { bit_pos: pos, content: &v };
    let res = it.next();
    match want {
        SpecHuffStep::Sym { sym, len } => {
            assert!(matches!(res, Some(Ok(x)) if x == sym), "C15.huff.decode.symbol: the symbol whose code starts the window");
            assert!(end_of(&it.bit_pos) == start + len as usize, "C15.huff.decode.advance: advanced by the code length");
        }
        SpecHuffStep::End { pad_ok: true } => assert!(res.is_none(), "C15.huff.decode.end: valid padding ends the string"),
        _ => assert!(!matches!(res, Some(Ok(_))), "C15.huff.decode.symbol: no symbol from EOS / a cut-off code"),
    }
    let it0 = v.hpack_decode();
    assert!(it0.bit_pos == BitWindow::new());
    kani::cover!(matches!(want, SpecHuffStep::Sym { len: 28, .. }));
    kani::cover!(matches!(want, SpecHuffStep::End { pad_ok: true }) && n == 0);
}
