// Kani harnesses attached to h3/src/qpack/prefix_string/bitwin.rs — C15 (bit-window arithmetic), C06.
// BitWindow {byte, bit, count} denotes the bit range [8*byte + bit, 8*byte + bit + count) of a byte string.
use super::*;

/// absolute bit position of the start of the window
fn start(w: &BitWindow) -> u64 {
    w.byte as u64 * 8 + w.bit as u64
}

// vp: props=C15,C06; tag=C15.bitwin.forwards; kind=complete; tier=quick
// forwards(step): the new window starts where the old one ended, is `step` wide and is normalised (bit < 8).
// Fully symbolic u32 fields; the only precondition is the absence of u32 overflow, i.e. the byte string is
// shorter than 2^32 bytes and bit + count fits (always: bit < 8 or a small offset, count <= 8 in all callers).
#[kani::proof]
fn c15_bitwin_forwards() {
    let mut w = BitWindow { byte: kani::any(), bit: kani::any(), count: kani::any() };
    let step: u32 = kani::any();
    // precondition = what the callers guarantee: positions below 2^32 bytes, small bit/count
    kani::assume(w.bit <= 64 && w.count <= 64 && w.byte <= u32::MAX - 16);
    let old_end = start(&w) + w.count as u64;
    w.forwards(step);
    assert!(start(&w) == old_end, "C15.bitwin.forwards: new window starts at the old end");
    assert!(w.bit < 8, "C15.bitwin.forwards: normalised");
    assert!(w.count == step);
    kani::cover!(w.byte > 0 && w.bit == 7);
    kani::cover!(step == 0);
}

// vp: props=C15,C06; tag=C15.bitwin.forwards.initial; kind=complete; tier=thorough
// from BitWindow::new() the first window is [0, step)
#[kani::proof]
fn c15_bitwin_new_forwards() {
    let mut w = BitWindow::new();
    assert!(w.byte == 0 && w.bit == 0 && w.count == 0);
    let step: u32 = kani::any();
    w.forwards(step);
    assert!(w.byte == 0 && w.bit == 0 && w.count == step);
    kani::cover!(step == 5);
}

// vp: props=C15,C06; tag=C15.bitwin.opposite; kind=complete; tier=quick
// opposite_bit_window(): same start, reaches exactly to the end of the current byte, never empty, <= 8 bits;
// no overflow / underflow for any field values
#[kani::proof]
fn c15_bitwin_opposite() {
    let w = BitWindow { byte: kani::any(), bit: kani::any(), count: kani::any() };
    let o = w.opposite_bit_window();
    assert!(o.byte == w.byte && o.bit == w.bit);
    assert!(1 <= o.count && o.count <= 8);
    if w.bit < 8 {
        assert!(start(&o) + o.count as u64 == (w.byte as u64 + 1) * 8, "C15.bitwin.opposite: ends at the byte boundary");
    }
    kani::cover!(w.bit == 0 && o.count == 8);
    kani::cover!(w.bit == 7 && o.count == 1);
}
