// Kani harnesses attached to h3/src/qpack/prefix_string/mod.rs — C15 (string literal = length prefix + payload), C06.
//
// What Kani can decide about `decode` is content-free: the length prefix, the `remaining() < len` check and how
// many octets are taken from the buffer.  With a real payload everything behind `buf.copy_to_bytes(len)` holds
// a `Bytes` and collects into a growing `Vec` (does not finish: a 12-byte `&[u8]` wire restricted to the
// too-short inputs was stopped after 10 min), so the harness uses a `Buf` whose payload is never materialised.
// What the payload decodes to is the business of the per-symbol harnesses in decode.rs + the string-level lemma.
use super::*;
#[path = "/verif/kani/_spec.rs"]
mod spec;
use spec::*;

/// Content-free wire: the first 12 octets (enough for any length prefix) are symbolic, whatever follows is
/// never looked at - `copy_to_bytes` only accounts for the octets it is asked for and hands back an empty
/// `Bytes`.  `total` (the number of octets on the wire) is any usize.
struct Wire {
    head: [u8; 12],
    pos: usize,
    total: usize,
    copied: Option<usize>,
}
impl Buf for Wire {
    fn remaining(&self) -> usize {
        self.total - self.pos
    }
    fn chunk(&self) -> &[u8] {
        let end = if self.total < 12 { self.total } else { 12 };
        if self.pos < end {
            &self.head[self.pos..end]
        } else {
            &[]
        }
    }
    fn advance(&mut self, cnt: usize) {
        assert!(cnt <= self.total - self.pos);
        self.pos += cnt;
    }
    fn copy_to_bytes(&mut self, len: usize) -> bytes::Bytes {
        assert!(len <= self.total - self.pos, "copy_to_bytes beyond the end of the buffer");
        assert!(self.copied.is_none());
        self.pos += len;
        self.copied = Some(len);
        bytes::Bytes::new()
    }
}

// vp: props=C15,C06,C11; tag=C15.string.length; kind=complete; tier=quick
// `decode(size, buf)` for every prefix size used with strings (size - 1 in 1..=8), every length prefix and every
// wire length: the prefix is read by prefix_int::decode, a string that announces more octets than remain is
// UnexpectedEnd with nothing but the prefix consumed, otherwise exactly `len` octets are taken (one
// copy_to_bytes(len), never beyond the end: no panic in `Buf`).  The payload is content-free (see `Wire`).
#[kani::proof]
#[kani::unwind(13)]
fn c15_string_decode_length() {
    let size: u8 = kani::any();
    kani::assume(2 <= size && size <= 9);
    let mut w = Wire { head: kani::any(), pos: 0, total: kani::any(), copied: None };
    let n = if w.total < 12 { w.total } else { 12 };
    let want = spec_prefix_int_dec(size - 1, &w.head[..n]);
    let res = decode(size, &mut w);
    match want {
        SpecPrefixInt::Value { value, used, .. } => {
            if used <= 10 {
                if value <= (w.total - used) as u64 {
                    assert!(res.is_ok(), "C15.string.length: complete literal accepted");
                    assert!(w.copied == Some(value as usize) && w.pos == used + value as usize, "C15.string.length: exactly len octets taken");
                } else {
                    assert!(res == Err(Error::UnexpectedEnd), "C15.string.short: announced length exceeds the input");
                    assert!(w.copied.is_none() && w.pos == used);
                }
            } else {
                // ten continuation octets: decided by c15_int_decode_top (Overflow today)
                assert!(w.copied.is_none() || w.copied == Some(value as usize));
            }
        }
        // (nine continuation octets that all ask for more, then the end, are reported as Overflow today)
        SpecPrefixInt::Truncated => assert!(res.is_err() && w.copied.is_none(), "C15.string.short: truncated length prefix"),
        SpecPrefixInt::TooBig => assert!(res == Err(Error::Integer(IntegerError::Overflow)) && w.copied.is_none(), "C15.string.length: length overflow"),
    }
    kani::cover!(res.is_ok() && w.total > 1000);
    kani::cover!(res == Err(Error::UnexpectedEnd) && w.pos == 10);
    kani::cover!(matches!(want, SpecPrefixInt::TooBig));
}
