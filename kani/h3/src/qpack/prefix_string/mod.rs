// Kani harnesses attached to h3/src/qpack/prefix_string/mod.rs — C15 (string literal = length prefix + payload), C06.
//
// Only the part of `decode` in front of `buf.copy_to_bytes(len)` is within Kani's reach (everything behind it
// holds a `Bytes` and collects into a growing `Vec`, see DESIGN §2): the length prefix and the
// `remaining() < len` check.  The harness therefore covers exactly the inputs that must be refused for being
// too short - a content-free question - and says nothing about accepted strings (those are the business of
// the per-symbol harnesses in decode.rs + the string-level lemma).
use super::*;
#[path = "/verif/kani/_spec.rs"]
mod spec;
use spec::*;

// vp: props=C15,C06; tag=C15.string.short; kind=complete; tier=quick
// for every prefix size used with strings (size - 1 in 1..=8) and every wire of up to 12 octets whose length
// prefix is truncated, unrepresentable, or announces more octets than follow: the documented error, no panic,
// and nothing is read past the prefix.  (12 octets: the longest prefix integer; the announced length is any u64.)
#[kani::proof]
#[kani::unwind(13)]
fn c15_string_decode_too_short() {
    let size: u8 = kani::any();
    kani::assume(2 <= size && size <= 9);
    let arr: [u8; 12] = kani::any();
    let n: usize = kani::any();
    kani::assume(n <= 12);
    let want = spec_prefix_int_dec(size - 1, &arr[..n]);
    // keep only the inputs that cannot be a whole string literal
    let short = match want {
        SpecPrefixInt::Value { value, used, .. } => value > (n - used) as u64,
        _ => true,
    };
    kani::assume(short);
    let mut r: &[u8] = &arr[..n];
    let res = decode(size, &mut r);
    match want {
        SpecPrefixInt::Value { used, .. } => {
            if used <= 10 {
                assert!(res == Err(Error::UnexpectedEnd), "C15.string.short: announced length exceeds the input");
                assert!(n - r.len() == used);
            } else {
                // ten continuation octets: which error depends on c15_int_decode_top (Overflow today)
                assert!(res.is_err(), "C15.string.short: announced length exceeds the input");
            }
        }
        SpecPrefixInt::Truncated => assert!(res.is_err(), "C15.string.short: truncated length prefix"),
        SpecPrefixInt::TooBig => assert!(res == Err(Error::Integer(IntegerError::Overflow)), "C15.string.short: length overflow"),
    }
    kani::cover!(matches!(want, SpecPrefixInt::Value { used: 1, .. }) && n == 3);
    kani::cover!(matches!(want, SpecPrefixInt::Value { used: 10, .. }));
    kani::cover!(matches!(want, SpecPrefixInt::TooBig));
}
