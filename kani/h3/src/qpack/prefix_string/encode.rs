// Kani harnesses attached to h3/src/qpack/prefix_string/encode.rs — C15 (Huffman encoding, RFC 7541 App. B).
//
// Oracle: SPEC_HUFF_LEN / SPEC_HUFF_CODE of /verif/kani/_spec.rs (canonical code derived from the Appendix B
// lengths; nothing is taken from this file's table).
// Split as DESIGN §4 C15 "Encoder side": the table by concrete enumeration, `write_bits` as a kernel, and
// `put` for every symbol and bit offset on a buffer that is already long enough (Kani cannot grow a Vec:
// `ensure_free_space`'s push loop is left to the Verus unit / stated as not covered).
use super::*;
#[path = "/verif/kani/_spec.rs"]
mod spec;
use spec::*;

/// the code stored in a table entry, the way `put` consumes it: whole octets first, the last octet holds the
/// remaining bit_count % 8 bits right-aligned (only its low bits are used)
fn entry_code(e: &EncodeValue) -> u64 {
    let mut v: u64 = 0;
    let mut rest = e.bit_count;
    let mut i = 0;
    while i < e.buffer.len() {
        let n = if rest < 8 { rest } else { 8 };
        v = (v << n) | (e.buffer[i] as u64 & ((1u64 << n) - 1));
        rest -= n;
        i += 1;
    }
    v
}

// vp: props=C15,C14; tag=C15.huff.encode.table; kind=complete; tier=quick
// all 256 entries of the encoder's HPACK_STRING table: bit_count == RFC length, exactly ceil(bit_count/8)
// octets, and the bits are the canonical code of that symbol.  Concrete enumeration of constant data.
#[kani::proof]
#[kani::unwind(257)]
fn c15_huff_encode_table() {
    let mut c = 0usize;
    while c < 256 {
        let e = &HPACK_STRING[c];
        assert!(e.bit_count == SPEC_HUFF_LEN[c] as u32, "C15.huff.encode.table: code length");
        assert!(e.buffer.len() as u32 == (e.bit_count + 7) / 8, "C15.huff.encode.table: octet count");
        assert!(entry_code(e) == SPEC_HUFF_CODE[c] as u64, "C15.huff.encode.table: code bits");
        c += 1;
    }
    kani::cover!(c == 256);
}

// vp: props=C15,C06; tag=C15.huff.write_bits; kind=complete; tier=quick
// write_bits(out, pos, value) under its documented precondition (bit < 8, 1 <= count <= 8, the range fits,
// the bits of out[pos.byte] from pos.bit on are ones):
//  * bits before the window are kept, bytes not touched are kept;
//  * bits [start, start+count) become the `count` low bits of value, most significant first;
//  * every bit after the window up to the end of the last touched byte is one (the "all-ones tail" that
//    makes the final padding a prefix of EOS);
//  * the debug_assert!s inside hold, no index / shift failure.
#[kani::proof]
#[kani::unwind(33)]
fn c15_huff_write_bits() {
    let before: [u8; 4] = kani::any();
    let mut out = before;
    let n: usize = kani::any();
    kani::assume(n <= 4);
    let pos = BitWindow { byte: kani::any(), bit: kani::any(), count: kani::any() };
    let value: u8 = kani::any();
    kani::assume(pos.bit < 8 && 1 <= pos.count && pos.count <= 8);
    let start = pos.byte as usize * 8 + pos.bit as usize;
    let end = start + pos.count as usize;
    kani::assume(pos.byte < 4 && end <= 8 * n);
    let last_byte = (end - 1) / 8; // last byte touched
    // precondition: the rest of the first byte is still all ones
    kani::assume(before[pos.byte as usize] | PAD_LEFT[pos.bit as usize] == 255);
    write_bits(&mut out[..n], &pos, value);
    let mut i = 0;
    while i < 32 {
        if i < 8 * n {
            let b = spec_bit(&out, i);
            if i < start {
                assert!(b == spec_bit(&before, i), "C15.huff.write_bits.keep: earlier bits kept");
            } else if i < end {
                assert!(b == (value >> (end - 1 - i)) & 1, "C15.huff.write_bits.value: the code bits");
            } else if i / 8 <= last_byte {
                assert!(b == 1, "C15.huff.write_bits.tail: all-ones tail");
            } else {
                assert!(b == spec_bit(&before, i), "C15.huff.write_bits.keep: later bytes kept");
            }
        }
        i += 1;
    }
    kani::cover!(pos.bit == 5 && pos.count == 8 && pos.byte == 2);
    kani::cover!(pos.bit == 0 && pos.count == 8);
    kani::cover!(pos.bit == 7 && pos.count == 1 && n == 1);
}

/// A `Vec` viewing a 6-byte array (no allocation; never dropped, never grown).
fn view_vec6(arr: &mut [u8; 6]) -> Vec<u8> {
    unsafe { Vec::from_raw_parts(arr.as_mut_ptr(), 6, 6) }
}
/// the 48 bits of six bytes as one big-endian number (bit 0 of the string = bit 47 of the number)
fn be48(b: &[u8]) -> u64 {
    ((b[0] as u64) << 40) | ((b[1] as u64) << 32) | ((b[2] as u64) << 24) | ((b[3] as u64) << 16) | ((b[4] as u64) << 8) | b[5] as u64
}

// vp: props=C15,C14; tag=C15.huff.put; kind=complete; tier=quick
// HuffmanEncoder::put(c) for every symbol c and every window state whose end lies in byte 0, on a buffer that
// already holds six bytes (so `ensure_free_space` returns without pushing; 7 + 30 bits fit) whose not yet
// written part is all ones - the invariant ensure_free_space/write_bits maintain:
//  * the bits written are exactly spec_code(c), at the current position;
//  * earlier bits are kept, all later bits are still ones;
//  * the position advances by len(c) and stays normalised.
// (loop-free comparison on the 48-bit big-endian value so that the unwind bound can stay at the 4 code bytes)
#[kani::proof]
#[kani::unwind(6)]
fn c15_huff_put_symbol() {
    let mut arr: [u8; 6] = kani::any();
    let bit: u32 = kani::any();
    let count: u32 = kani::any();
    kani::assume(bit < 8 && count < 8 && bit + count < 8);
    let start = (bit + count) as usize;
    // everything from `start` on is still filler
    kani::assume(arr[0] | PAD_LEFT[start] == 255);
    kani::assume(arr[1] == 255 && arr[2] == 255 && arr[3] == 255 && arr[4] == 255 && arr[5] == 255);
    let before = be48(&arr);
    let c: u8 = kani::any();
    let mut enc = std::mem::ManuallyDrop::new(HuffmanEncoder {
        buffer_pos: BitWindow { byte: 0, bit, count },
        buffer: view_vec6(&mut arr),
    });
    let res = enc.put(c);
    assert!(res.is_ok());
    assert!(enc.buffer.len() == 6, "C15.huff.put: no growth needed");
    let l = SPEC_HUFF_LEN[c as usize] as usize;
    let code = SPEC_HUFF_CODE[c as usize] as u64;
    let p = &enc.buffer_pos;
    assert!(p.byte as usize * 8 + (p.bit + p.count) as usize == start + l, "C15.huff.put.advance: position advanced by len(c)");
    assert!(p.bit < 8);
    let after = be48(&enc.buffer);
    let below_start: u64 = (1u64 << (48 - start)) - 1; // the bits from `start` on
    let below_end: u64 = (1u64 << (48 - start - l)) - 1; // the bits after the code
    assert!(after & !below_start == before & !below_start, "C15.huff.put.keep: earlier bits kept");
    assert!((after & below_start) >> (48 - start - l) == code, "C15.huff.put.code: spec_code(c) written at the position");
    assert!(after & below_end == below_end, "C15.huff.put.tail: the rest stays all ones");
    kani::cover!(l == 30 && start == 7);
    kani::cover!(l == 8 && start == 0);
    kani::cover!(l == 5 && start == 3);
}
