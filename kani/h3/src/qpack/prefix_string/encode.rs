// Kani harnesses attached to h3/src/qpack/prefix_string/encode.rs — C15 (Huffman encoding, RFC 7541 App. B).
//
// Oracle: SPEC_HUFF_LEN / SPEC_HUFF_CODE of /verif/kani/_spec.rs (canonical code derived from the Appendix B
// lengths; nothing is taken from this file's table).
// Split as DESIGN §4 C15 "Encoder side": the table by concrete enumeration, `write_bits` as a kernel, and
// `put` for every symbol and bit offset on a buffer that is already long enough (Kani cannot grow a Vec:
// `ensure_free_space`'s push loop is left to the Verus unit / stated as not covered).
use super::*;
#[path = "/verif/kani/_spec.rs"]
mod spec;
use spec::*;

// vp: props=C15; tag=C15.huff.spec.table; kind=complete; tier=thorough
// sanity of the oracle itself: SPEC_HUFF_TABLE_OK is evaluated by rustc at compile time (per-length symbol counts
// 5:10 6:26 7:32 8:6 10:5 11:3 12:2 13:6 14:2 15:3 19:3 20:8 21:13 22:26 23:29 24:12 25:4 26:15 27:19 28:29 30:4,
// Kraft sum == 2^30, EOS == 0x3fffffff, no code a prefix of another; the file does not even build otherwise);
// plus a handful of (code, length) pairs quoted from RFC 7541 Appendix B, one per length class.
#[kani::proof]
fn c15_huff_spec_table_ok() {
    assert!(SPEC_HUFF_TABLE_OK);
    let quoted: [(usize, u32, u8); 14] = [
        (b'0' as usize, 0x0, 5), (b'a' as usize, 0x3, 5), (b' ' as usize, 0x14, 6), (b'A' as usize, 0x21, 6),
        (b':' as usize, 0x5c, 7), (b'&' as usize, 0xf8, 8), (b'!' as usize, 0x3f8, 10), (0, 0x1ff8, 13),
        (b'\\' as usize, 0x7fff0, 19), (255, 0x3ffffee, 26), (249, 0xffffffe, 28), (10, 0x3ffffffc, 30),
        (22, 0x3ffffffe, 30), (256, 0x3fffffff, 30),
    ];
    let mut i = 0;
    while i < 14 {
        let (c, code, len) = quoted[i];
        assert!(SPEC_HUFF_CODE[c] == code && SPEC_HUFF_LEN[c] == len, "C15.huff.spec.table: derived code differs from RFC 7541 App. B");
        i += 1;
    }
    kani::cover!(i == 14);
}

/// the code stored in a table entry, the way `put` consumes it: whole octets first, the last octet holds the
/// remaining bit_count % 8 bits right-aligned (only its low bits are used)
const fn entry_code(e: &EncodeValue) -> u64 {
    let mut v: u64 = 0;
    let mut rest = e.bit_count;
    let mut i = 0;
    while i < e.buffer.len() {
        let n = if rest < 8 { rest } else { 8 };
        v = (v << n) | (e.buffer[i] as u64 & ((1u64 << n) - 1));
        rest -= n;
        i += 1;
    }
    v
}

/// The whole-table comparison, evaluated by rustc's const evaluator when this module is compiled (the table and the
/// oracle are both constants): index of the first entry of the encoder's HPACK_STRING that disagrees with the oracle
/// in length, octet count or code bits; 256 = none.
const fn encode_table_first_bad() -> usize {
    let table = &HPACK_STRING;
    let mut c = 0usize;
    while c < 256 {
        let e = &table[c];
        if e.bit_count != SPEC_HUFF_LEN[c] as u32
            || e.buffer.len() as u32 != (e.bit_count + 7) / 8
            || entry_code(e) != SPEC_HUFF_CODE[c] as u64
        {
            return c;
        }
        c += 1;
    }
    256
}
const ENCODE_TABLE_FIRST_BAD: usize = encode_table_first_bad();

// vp: props=C15,C14; tag=C15.huff.encode.table; kind=complete; tier=quick
// all 256 entries of the encoder's table against spec_code in one cheap harness: the enumeration is done by rustc's
// const evaluator on the real constants (above), Kani only looks at its result.  The same enumeration carried out
// by CBMC itself is c15_huff_encode_table_q0..q3 (thorough tier, 15-40 s each).
#[kani::proof]
fn c15_huff_encode_whole_table() {
    assert!(ENCODE_TABLE_FIRST_BAD == 256, "C15.huff.encode.table: an entry of the encoder table differs from the RFC 7541 App. B code");
    kani::cover!(ENCODE_TABLE_FIRST_BAD == 256);
}

// all 256 entries of the encoder's HPACK_STRING table: bit_count == RFC length, exactly ceil(bit_count/8)
// octets, and the bits are the canonical code of that symbol.  Concrete enumeration of constant data by CBMC, in four
// quarters (the whole table in one harness: 110 s); thorough tier, the quick tier has c15_huff_encode_whole_table.
fn encode_table_range(lo: usize, hi: usize) {
    let table = &HPACK_STRING; // a `const`: materialised once here, not once per iteration
    let mut c = lo;
    while c < hi {
        let e = &table[c];
        assert!(e.bit_count == SPEC_HUFF_LEN[c] as u32, "C15.huff.encode.table: code length");
        assert!(e.buffer.len() as u32 == (e.bit_count + 7) / 8, "C15.huff.encode.table: octet count");
        assert!(entry_code(e) == SPEC_HUFF_CODE[c] as u64, "C15.huff.encode.table: code bits");
        c += 1;
    }
    kani::cover!(c == hi);
}
// vp: props=C15,C14; tag=C15.huff.encode.table; kind=complete; tier=thorough
#[kani::proof]
#[kani::unwind(65)]
fn c15_huff_encode_table_q0() {
    encode_table_range(0, 64);
}
// vp: props=C15,C14; tag=C15.huff.encode.table; kind=complete; tier=thorough
#[kani::proof]
#[kani::unwind(65)]
fn c15_huff_encode_table_q1() {
    encode_table_range(64, 128);
}
// vp: props=C15,C14; tag=C15.huff.encode.table; kind=complete; tier=thorough
#[kani::proof]
#[kani::unwind(65)]
fn c15_huff_encode_table_q2() {
    encode_table_range(128, 192);
}
// vp: props=C15,C14; tag=C15.huff.encode.table; kind=complete; tier=thorough
#[kani::proof]
#[kani::unwind(65)]
fn c15_huff_encode_table_q3() {
    encode_table_range(192, 256);
}

// vp: props=C15,C06; tag=C15.huff.write_bits; kind=complete; tier=quick
// write_bits(out, pos, value) under its documented precondition (bit < 8, 1 <= count <= 8, the range fits,
// the bits of out[pos.byte] from pos.bit on are ones):
//  * bits before the window are kept, bytes not touched are kept;
//  * bits [start, start+count) become the `count` low bits of value, most significant first;
//  * every bit after the window up to the end of the last touched byte is one (the "all-ones tail" that
//    makes the final padding a prefix of EOS);
//  * the debug_assert!s inside hold, no index / shift failure.
#[kani::proof]
#[kani::unwind(33)]
fn c15_huff_write_bits() {
    let before: [u8; 4] = kani::any();
    let mut out = before;
    let n: usize = kani::any();
    kani::assume(n <= 4);
    let pos = BitWindow { byte: kani::any(), bit: kani::any(), count: kani::any() };
    let value: u8 = kani::any();
    kani::assume(pos.bit < 8 && 1 <= pos.count && pos.count <= 8);
    let start = pos.byte as usize * 8 + pos.bit as usize;
    let end = start + pos.count as usize;
    kani::assume(pos.byte < 4 && end <= 8 * n);
    let last_byte = (end - 1) / 8; // last byte touched
    // precondition: the rest of the first byte is still all ones
    kani::assume(before[pos.byte as usize] | PAD_LEFT[pos.bit as usize] == 255);
    write_bits(&mut out[..n], &pos, value);
    let mut i = 0;
    while i < 32 {
        if i < 8 * n {
            let b = spec_bit(&out, i);
            if i < start {
                assert!(b == spec_bit(&before, i), "C15.huff.write_bits.keep: earlier bits kept");
            } else if i < end {
                assert!(b == (value >> (end - 1 - i)) & 1, "C15.huff.write_bits.value: the code bits");
            } else if i / 8 <= last_byte {
                assert!(b == 1, "C15.huff.write_bits.tail: all-ones tail");
            } else {
                assert!(b == spec_bit(&before, i), "C15.huff.write_bits.keep: later bytes kept");
            }
        }
        i += 1;
    }
    kani::cover!(pos.bit == 5 && pos.count == 8 && pos.byte == 2);
    kani::cover!(pos.bit == 0 && pos.count == 8);
    kani::cover!(pos.bit == 7 && pos.count == 1 && n == 1);
}

// `HuffmanEncoder::put` itself is not checked here: its first statement calls `ensure_free_space`, whose
// Vec::reserve / Vec::push path CBMC has to explore even when the buffer is long enough (out of memory after
// 5 min on a 6-byte pre-filled buffer; the two std calls cannot be stubbed away either, their stubs would need
// the unstable `Allocator` bound).  `put`'s loop over the <= 4 code bytes and `ensure_free_space` are taken in
// the Verus unit units/huffman.rs.in on top of the `write_bits` contract proved above.
