// Kani harnesses attached (as a child module) to h3/src/qpack/block.rs — C11 (field-line dispatch and the
// encoded field section prefix, RFC 9204 §4.5 / §4.5.1), C06.
// Functions under check (the real ones): HeaderBlockField::decode, HeaderPrefix::{decode,encode,get,new},
// Indexed::decode / IndexedWithPostBase::decode (their flag tests).
use super::*;
#[path = "/verif/kani/_spec.rs"]
mod spec;
use spec::*;

// vp: props=C11,C06; tag=C11.dispatch; kind=complete; tier=quick
// all 256 first bytes against the representation table of RFC 9204 §4.5.2–§4.5.6, written as value
// ranges (the code uses masks):  1xxxxxxx indexed | 01xxxxxx literal with name reference |
// 001xxxxx literal with literal name | 0001xxxx indexed post-base | 0000xxxx literal with post-base name
// reference.  The five patterns partition the byte, so `Unknown` is never returned.
#[kani::proof]
fn c11_dispatch_first_byte() {
    let b: u8 = kani::any();
    let r = HeaderBlockField::decode(b);
    if b >= 128 {
        assert!(matches!(r, HeaderBlockField::Indexed));
    } else if b >= 64 {
        assert!(matches!(r, HeaderBlockField::LiteralWithNameRef));
    } else if b >= 32 {
        assert!(matches!(r, HeaderBlockField::Literal));
    } else if b >= 16 {
        assert!(matches!(r, HeaderBlockField::IndexedWithPostBase));
    } else {
        assert!(matches!(r, HeaderBlockField::LiteralWithPostBaseNameRef));
    }
    assert!(!matches!(r, HeaderBlockField::Unknown));
    kani::cover!(b == 0x1f);
    kani::cover!(b == 0x20);
    kani::cover!(b == 0x0f);
    kani::cover!(b == 0x7f);
    kani::cover!(b == 0x80);
}

// vp: props=C11,C06; tag=C11.indexed.flags; kind=bounded; bound=3 bytes; tier=quick
// §4.5.2 Indexed Field Line `1 T index(6+)`: T = 1 static, T = 0 dynamic; the index is the 6-bit-prefix
// integer; consumed = the integer's octets.  (Called only behind the dispatcher, i.e. with bit 7 set.)
#[kani::proof]
#[kani::unwind(12)]
fn c11_indexed_decode_flags() {
    let arr: [u8; 3] = kani::any();
    let len: usize = kani::any();
    kani::assume(len <= 3);
    kani::assume(len == 0 || arr[0] >= 128); // dispatcher's guarantee
    let mut r: &[u8] = &arr[..len];
    let res = Indexed::decode(&mut r);
    match spec_prefix_int_dec(6, &arr[..len]) {
        SpecPrefixInt::Value { flags, value, used } => {
            assert!(flags == 2 || flags == 3);
            assert!(len - r.len() == used);
            if arr[0] & 0x40 != 0 {
                assert!(res == Ok(Indexed::Static(value as usize)));
            } else {
                assert!(res == Ok(Indexed::Dynamic(value as usize)));
            }
        }
        SpecPrefixInt::Truncated => {
            assert!(res == Err(ParseError::Integer(prefix_int::Error::UnexpectedEnd)));
        }
        SpecPrefixInt::TooBig => {
            assert!(false); // not reachable with 2 continuation octets
        }
    }
    kani::cover!(res == Ok(Indexed::Static(98)));
    kani::cover!(matches!(res, Ok(Indexed::Dynamic(_))));
    kani::cover!(matches!(res, Ok(Indexed::Static(i)) if i > 63 + 127));
    kani::cover!(res.is_err() && len == 2);
}

// vp: props=C11,C06; tag=C11.prefix.decode; kind=bounded; bound=6 bytes; tier=quick
// §4.5.1 Encoded Field Section Prefix: `Required Insert Count (8+)`, then `S | Delta Base (7+)`.
// decode == the two prefixed integers of the spec library in sequence, S is the top bit of the second
// integer's first octet; exactly their octets are consumed; truncated => UnexpectedEnd.
#[kani::proof]
#[kani::unwind(12)]
fn c11_header_prefix_decode() {
    let arr: [u8; 6] = kani::any();
    let len: usize = kani::any();
    kani::assume(len <= 6);
    let mut r: &[u8] = &arr[..len];
    let res = HeaderPrefix::decode(&mut r);
    match spec_prefix_int_dec(8, &arr[..len]) {
        SpecPrefixInt::Value { flags: _, value: ric, used: u1 } => match spec_prefix_int_dec(7, &arr[u1..len]) {
            SpecPrefixInt::Value { flags, value: db, used: u2 } => {
                assert!(flags <= 1);
                assert!(flags == arr[u1] / 128);
                assert!(
                    res == Ok(HeaderPrefix {
                        encoded_insert_count: ric as usize,
                        sign_negative: flags == 1,
                        delta_base: db as usize,
                    })
                );
                assert!(len - r.len() == u1 + u2);
            }
            SpecPrefixInt::Truncated => {
                assert!(res == Err(ParseError::Integer(prefix_int::Error::UnexpectedEnd)));
            }
            SpecPrefixInt::TooBig => {
                assert!(false);
            }
        },
        SpecPrefixInt::Truncated => {
            assert!(res == Err(ParseError::Integer(prefix_int::Error::UnexpectedEnd)));
        }
        SpecPrefixInt::TooBig => {
            assert!(false);
        }
    }
    kani::cover!(res == Ok(HeaderPrefix { encoded_insert_count: 0, sign_negative: false, delta_base: 0 }));
    kani::cover!(matches!(&res, Ok(p) if p.sign_negative && p.encoded_insert_count == 5));
    kani::cover!(matches!(&res, Ok(p) if p.encoded_insert_count > 255 + 127 && p.delta_base > 127 + 127));
    kani::cover!(res.is_err() && len == 5);
}

// vp: props=C11,C14; tag=C11.prefix.encode; kind=complete; tier=quick
// what the stateless encoder writes first: HeaderPrefix::new(0, 0, 0, 0).encode == the two octets 00 00
// (Required Insert Count 0, S = 0, Delta Base 0 — RFC 9204 §4.5.1: a section without dynamic references),
// and for every max_table_size, `new` with required == 0 is that same prefix.
#[kani::proof]
#[kani::unwind(12)]
fn c11_header_prefix_stateless_encode() {
    let base: usize = kani::any();
    let total: usize = kani::any();
    let mts: usize = kani::any();
    let p = HeaderPrefix::new(0, base, total, mts);
    assert!(p == HeaderPrefix { encoded_insert_count: 0, sign_negative: false, delta_base: 0 });
    let mut arr = [0xaau8; 4];
    let written;
    {
        let mut w = &mut arr[..];
        p.encode(&mut w);
        written = 4 - w.len();
    }
    assert!(written == 2 && arr[0] == 0 && arr[1] == 0);
    kani::cover!(mts == 0);
    kani::cover!(mts == 4096 && base == 7);
}

// vp: props=C11,C06; tag=C11.prefix.stateless; kind=complete; tier=quick
// The stateless decoder evaluates the prefix as `HeaderPrefix::get(0, 0)` (no dynamic table: capacity 0,
// nothing inserted).  RFC 9204 §4.5.1.1 with MaxEntries = 0: FullRange = 0, so EncodedInsertCount must be
// 0 (`if EncodedInsertCount > FullRange: Error`) and Required Insert Count is 0; §4.5.1.2: with Required
// Insert Count 0 a Sign bit of 1 is invalid (Required Insert Count <= Delta Base), S = 0 allows any Delta
// Base.  So: Ok <=> encoded_insert_count == 0 && !sign_negative, and then required == 0; never a panic.
#[kani::proof]
fn c11_header_prefix_get_stateless() {
    let p = HeaderPrefix {
        encoded_insert_count: kani::any(),
        sign_negative: kani::any(),
        delta_base: kani::any(),
    };
    let eic = p.encoded_insert_count;
    let s = p.sign_negative;
    let r = p.get(0, 0);
    match r {
        Ok((required, _base)) => {
            assert!(required == 0);
            assert!(eic == 0); // [C11.prefix.ric]  a section that needs dynamic entries is not accepted
            assert!(!s); // [C11.prefix.sign] negative Base is not accepted
        }
        Err(_) => {
            assert!(eic != 0 || s); // only those two reasons
        }
    }
    kani::cover!(r.is_ok());
    kani::cover!(eic == 0 && !s && r.is_ok());
}
