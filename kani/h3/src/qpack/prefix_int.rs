// Kani harnesses attached (as a child module) to h3/src/qpack/prefix_int.rs — C15 (RFC 7541 §5.1), C06.
//
// All harnesses are complete: the prefix size, the flags, the value (all u64) and the wire bytes are fully
// symbolic.  12 wire bytes suffice because `decode` never reads more than 1 + MAX_POWER/7 (+1 after the
// proposed fix) octets; the unwinding assertions (on by default) prove that bound, so nothing is cut off.
// The domain is split so that the one defect of the pinned tree (values >= 2^63 + 2^N - 1 need a tenth
// continuation octet, which `decode` refuses) sits alone in the two `*_top` harnesses.
use super::*;
#[path = "/verif/kani/_spec.rs"]
mod spec;
use spec::*;

fn any_size() -> u8 {
    let size: u8 = kani::any();
    kani::assume(1 <= size && size <= 8);
    size
}
/// flags that fit the 8 - size bits above the prefix
fn any_flags(size: u8) -> u8 {
    let flags: u8 = kani::any();
    kani::assume((flags as u16) < (1u16 << (8 - size)));
    flags
}
/// first value that needs ten continuation octets: 2^63 + (2^size - 1)
fn top_start(size: u8) -> u64 {
    (1u64 << 63) + ((1u64 << size) - 1)
}
fn run_encode(size: u8, flags: u8, value: u64) -> ([u8; 12], usize) {
    let mut arr = [0u8; 12];
    let written;
    {
        let mut w = &mut arr[..];
        encode(size, flags, value, &mut w);
        written = 12 - w.len();
    }
    (arr, written)
}

// vp: props=C15; tag=C15.int.spec.roundtrip; kind=complete; tier=thorough
// the two spec functions are inverse on all of u64 for every prefix size (sanity of the oracle itself)
#[kani::proof]
#[kani::unwind(13)]
fn c15_int_spec_roundtrip() {
    let size = any_size();
    let flags = any_flags(size);
    let value: u64 = kani::any();
    let (b, n) = spec_prefix_int_enc(size, flags, value);
    assert!(n <= 11);
    assert!(spec_prefix_int_dec(size, &b[..n]) == SpecPrefixInt::Value { flags, value, used: n });
    // a strict prefix of an encoding is never a complete encoding
    if n > 1 {
        assert!(spec_prefix_int_dec(size, &b[..n - 1]) == SpecPrefixInt::Truncated);
    }
    kani::cover!(n == 1);
    kani::cover!(n == 11 && value == u64::MAX);
}

// vp: props=C15,C14,C11; tag=C15.int.encode; kind=complete; tier=quick
// encode writes exactly the RFC 7541 §5.1 octets, for every u64, prefix size and flags; no overflow / panic
#[kani::proof]
#[kani::unwind(13)]
fn c15_int_encode_matches_spec() {
    let size = any_size();
    let flags = any_flags(size);
    let value: u64 = kani::any();
    let (arr, written) = run_encode(size, flags, value);
    let (b, n) = spec_prefix_int_enc(size, flags, value);
    assert!(written == n, "C15.int.encode: number of octets");
    let mut i = 0;
    while i < 11 {
        if i < n {
            assert!(arr[i] == b[i], "C15.int.encode: octet value");
        }
        i += 1;
    }
    kani::cover!(n == 1 && size == 8 && value == 254);
    kani::cover!(n == 2 && value == 255);
    kani::cover!(n == 10);
    kani::cover!(n == 11 && size == 1);
}

// vp: props=C15,C06,C11; tag=C15.int.decode.sound; kind=complete; tier=quick
// For every byte string (<= 12 octets, enough: see header) and prefix size:
//  * Ok((f, v))  =>  (f, v) is the exact RFC value (never a wrapped one) and exactly the encoding is consumed;
//  * every encoding with at most nine continuation octets decodes to its RFC value;
//  * truncated  =>  an error, and UnexpectedEnd is only ever reported for a truncated encoding;
//  * an integer above u64::MAX or with more than ten continuation octets => Overflow;
//  * no arithmetic overflow, shift overflow or panic (Kani's built-in checks).
// Left open here (decided by c15_int_decode_top): complete encodings with exactly ten continuation octets.
#[kani::proof]
#[kani::unwind(13)]
fn c15_int_decode_sound() {
    let size = any_size();
    let arr: [u8; 12] = kani::any();
    let len: usize = kani::any();
    kani::assume(len <= 12);
    let mut r: &[u8] = &arr[..len];
    let res = decode(size, &mut r);
    let consumed = len - r.len();
    let want = spec_prefix_int_dec(size, &arr[..len]);
    match res {
        Ok((f, v)) => {
            assert!(
                want == SpecPrefixInt::Value { flags: f, value: v, used: consumed },
                "C15.int.decode.exact: an accepted integer is the exact RFC 7541 5.1 value"
            );
        }
        Err(Error::UnexpectedEnd) => {
            assert!(want == SpecPrefixInt::Truncated, "C15.int.decode.truncated: UnexpectedEnd only for a truncated encoding");
            assert!(consumed == len);
        }
        Err(Error::Overflow) => {
            // never for an encoding with <= 9 continuation octets
            match want {
                SpecPrefixInt::Value { used, .. } => assert!(used == 11, "C15.int.decode.range: Overflow for a short encoding"),
                SpecPrefixInt::Truncated => assert!(len >= 10, "C15.int.decode.range: Overflow for a short truncated encoding"),
                SpecPrefixInt::TooBig => {}
            }
        }
    }
    match want {
        SpecPrefixInt::Truncated => assert!(res.is_err(), "C15.int.decode.truncated: truncated encoding rejected"),
        SpecPrefixInt::TooBig => assert!(res == Err(Error::Overflow), "C15.int.decode.range: unrepresentable integer rejected, not wrapped"),
        SpecPrefixInt::Value { used, .. } => {
            if used <= 10 {
                assert!(res.is_ok(), "C15.int.decode.accept: encoding with <= 9 continuation octets accepted");
            }
        }
    }
    kani::cover!(res.is_ok() && consumed == 1);
    kani::cover!(res.is_ok() && consumed == 10);
    kani::cover!(res == Err(Error::UnexpectedEnd) && len == 9);
    kani::cover!(res == Err(Error::Overflow) && want == SpecPrefixInt::TooBig);
    kani::cover!(res == Err(Error::Overflow) && len == 12);
}

// vp: props=C15; tag=C15.int.decode.top; kind=complete; tier=quick
// complete encodings with exactly ten continuation octets whose value fits u64 are accepted (the range of
// the decoder is all of u64: "every integer round-trips ... for every prefix size")
#[kani::proof]
#[kani::unwind(13)]
fn c15_int_decode_top() {
    let size = any_size();
    let arr: [u8; 12] = kani::any();
    let len: usize = kani::any();
    kani::assume(len <= 12);
    let want = spec_prefix_int_dec(size, &arr[..len]);
    if let SpecPrefixInt::Value { flags, value, used } = want {
        kani::assume(used == 11);
        kani::cover!(value == u64::MAX);
        kani::cover!(size == 1 && len == 12);
        let mut r: &[u8] = &arr[..len];
        let res = decode(size, &mut r);
        assert!(
            res == Ok((flags, value)),
            "C15.int.decode.top: ten continuation octets, value <= u64::MAX, must decode"
        );
        assert!(len - r.len() == 11);
    }
}

// vp: props=C15; tag=C15.int.roundtrip; kind=complete; tier=quick
// decode(encode(size, f, v)) == (f, v), all octets consumed — every value that needs at most nine
// continuation octets (v < 2^63 + 2^size - 1)
#[kani::proof]
#[kani::unwind(13)]
fn c15_int_roundtrip_low() {
    let size = any_size();
    let flags = any_flags(size);
    let value: u64 = kani::any();
    kani::assume(value < top_start(size));
    let (arr, written) = run_encode(size, flags, value);
    let mut r: &[u8] = &arr[..written];
    let res = decode(size, &mut r);
    assert!(res == Ok((flags, value)), "C15.int.roundtrip: decode(encode(v)) == v");
    assert!(r.is_empty(), "C15.int.roundtrip: all octets consumed");
    // also with arbitrary bytes following
    let mut r2: &[u8] = &arr[..];
    assert!(decode(size, &mut r2) == Ok((flags, value)));
    assert!(r2.len() == 12 - written);
    kani::cover!(written == 10);
    kani::cover!(written == 1);
    kani::cover!(size == 8 && value == 255);
}

// vp: props=C15; tag=C15.int.roundtrip.top; kind=complete; tier=quick
// the same for the values that need a tenth continuation octet (v >= 2^63 + 2^size - 1)
#[kani::proof]
#[kani::unwind(13)]
fn c15_int_roundtrip_top() {
    let size = any_size();
    let flags = any_flags(size);
    let value: u64 = kani::any();
    kani::assume(value >= top_start(size));
    let (arr, written) = run_encode(size, flags, value);
    assert!(written == 11);
    kani::cover!(value == u64::MAX && size == 8);
    kani::cover!(size == 1);
    let mut r: &[u8] = &arr[..written];
    let res = decode(size, &mut r);
    assert!(res == Ok((flags, value)), "C15.int.roundtrip.top: decode(encode(v)) == v for v >= 2^63 + 2^size - 1");
    assert!(r.is_empty(), "C15.int.roundtrip.top: all octets consumed");
}
