// Kani harness attached (as a child module) to h3/src/frame.rs — C13: error-code mapping of SETTINGS errors.
// Function under check (the real one): InternalConnectionError::got_frame_error
// (h3/src/error/internal_error.rs), the single place where a FrameProtocolError becomes a connection
// error code (called from ConnectionInner::poll_control and connection_error_creators).
// (`FrameError::Settings(e)` -> `FrameProtocolError::Settings(e)` happens inside FrameDecoder::decode, which
// holds a BufList and is the Verus unit's.)
use super::*;
use crate::error::{internal_error::InternalConnectionError, Code};
use crate::proto::frame::SettingId;

fn any_settings_error() -> SettingsError {
    let k: u8 = kani::any();
    match k {
        0 => SettingsError::Exceeded,
        1 => SettingsError::Malformed,
        2 => SettingsError::Repeated(SettingId(kani::any())),
        3 => SettingsError::InvalidSettingId(kani::any()),
        _ => SettingsError::InvalidSettingValue(SettingId(kani::any()), kani::any()),
    }
}

/// The message text is irrelevant to the property and `format!`/`to_string` through `core::fmt` into a
/// growing `String` does not finish in Kani (> 5 min, 4 GB, measured): `SettingsError::to_string` is
/// replaced by one that returns the empty string.  Nothing but the message depends on it.
fn stub_settings_error_to_string(_e: &SettingsError) -> String {
    String::new()
}

// vp: props=C13,C05; tag=C13.code; kind=complete; tier=quick
// every SETTINGS error (repeated id, HTTP/2-reserved id, truncated entry, ...) is the connection error
// H3_SETTINGS_ERROR (0x109, RFC 9114 §8.1); malformed frames of other kinds are H3_FRAME_ERROR (0x106),
// HTTP/2 frame types H3_FRAME_UNEXPECTED (0x105)
#[kani::proof]
#[kani::stub(<SettingsError as std::string::ToString>::to_string, stub_settings_error_to_string)]
#[kani::unwind(8)]
fn c13_settings_error_code() {
    let e = any_settings_error();
    let is_rep = matches!(e, SettingsError::Repeated(_));
    let is_mal = matches!(e, SettingsError::Malformed);
    let err = InternalConnectionError::got_frame_error(FrameProtocolError::Settings(e));
    assert!(err.code == Code::H3_SETTINGS_ERROR);
    assert!(err.code.value() == 0x109);
    kani::cover!(is_rep);
    kani::cover!(is_mal);
}
