// Kani harness attached (as a child module) to h3/src/client/builder.rs — C13, C06.
// (The client builder keeps its `config` private, so this harness cannot live in kani/h3/src/config.rs
// next to the server's, c13_server_builder_setup_no_panic.)
use super::*;
#[path = "/verif/kani/_spec.rs"]
mod spec;
#[path = "/verif/kani/_putsink.rs"]
mod putsink;
use crate::proto::{coding::Encode, frame};
use crate::stream::UniStreamHeader;
use putsink::PutSink;
use spec::*;
use std::convert::TryFrom;

/// `fastrand::u64` replacement (un-stubbed fastrand is a Kani internal compiler error): any value of the range
fn stub_fastrand_u64<R: std::ops::RangeBounds<u64>>(r: R) -> u64 {
    use std::ops::Bound::*;
    let x: u64 = kani::any();
    match r.start_bound() {
        Included(a) => kani::assume(x >= *a),
        Excluded(a) => kani::assume(x > *a),
        Unbounded => {}
    }
    match r.end_bound() {
        Included(b) => kani::assume(x <= *b),
        Excluded(b) => kani::assume(x < *b),
        Unbounded => {}
    }
    x
}

// vp: props=C13,C06; tag=C13.setup.nopanic.client; kind=complete; tier=quick
// "For every configuration the client builder accepts, connection setup completes without panicking":
// every argument of every public setter symbolic (the size over ALL of u64), then the setup path of
// `ConnectionInner::send_control_stream_headers` (conversion + encoding of the control stream header).
// The builder either keeps the size or, if it is not representable as a varint, stores the largest
// representable one; what it stores is what is sent (c13_config_wire_*), and what `SendRequest` /
// `Connection` enforce locally (same field).
#[kani::proof]
#[kani::stub(fastrand::u64, stub_fastrand_u64)]
#[kani::unwind(9)]
fn c13_client_builder_setup_no_panic() {
    let mfs: u64 = kani::any();
    let (g, ec, dg): (bool, bool, bool) = (kani::any(), kani::any(), kani::any());
    let mut b = builder();
    b.max_field_section_size(mfs)
        .send_grease(g)
        .enable_datagram(dg)
        .enable_extended_connect(ec);
    let cfg = b.config;
    assert!(cfg.send_grease == g);
    assert!(cfg.settings.enable_extended_connect == ec);
    assert!(cfg.settings.enable_datagram == dg);
    assert!(!cfg.settings.enable_webtransport && cfg.settings.max_webtransport_sessions == 0);
    let stored = cfg.settings.max_field_section_size;
    assert!(stored == mfs || (mfs >= TWO62 && stored == TWO62 - 1));
    match frame::Settings::try_from(cfg) {
        Err(_) => {
            assert!(false);
        }
        Ok(settings) => {
            let mut sink = PutSink::new();
            UniStreamHeader::Control(settings).encode(&mut sink); // must not panic
            assert!(sink.n >= 3 + 10);
        }
    }
    kani::cover!(mfs == 0 && g);
    kani::cover!(mfs == TWO62 - 1 && !g);
}
