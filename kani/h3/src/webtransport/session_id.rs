// Kani harnesses attached (as a child module) to h3/src/webtransport/session_id.rs — C19 (+ C06 decode).
//
// Functions under check (real code): `impl From<StreamId> for SessionId`, `impl From<SessionId> for
// StreamId` (h3/src/proto/stream.rs), `SessionId::{from_varint, into_inner}`, `TryFrom<u64> for SessionId`,
// `impl Encode for SessionId`, `impl Decode for SessionId`.
// Spec (property statement, draft-ietf-webtrans-http3 §2: "the session ID of a WebTransport session is
// the stream ID of the CONNECT request"): the session id of stream s IS s, as a number.
use super::*;
#[path = "/verif/kani/_spec.rs"]
mod spec;
use spec::*;

fn any_stream_id() -> (u64, StreamId) {
    let v: u64 = kani::any();
    kani::assume(v < TWO62);
    (v, StreamId::try_from(v).unwrap())
}

// vp: props=C19; tag=C19.session.is-stream-id; kind=complete; tier=quick
// SessionId::from(s).into_inner() == s.into_inner() for every valid stream id
#[kani::proof]
fn c19_session_id_is_the_stream_id() {
    let (v, s) = any_stream_id();
    let sess = SessionId::from(s);
    assert!(sess.into_inner() == v);
    assert!(sess.into_inner() == s.into_inner());
    kani::cover!(v == 0);
    kani::cover!(v == 8);
    kani::cover!(v == TWO62 - 4);
    kani::cover!(v % 4 == 0 && v > 16384); // multi-byte varint CONNECT stream ids
}

// vp: props=C19; tag=C19.session.inverse; kind=complete; tier=quick
// the two conversions are inverse to each other, in both orders
#[kani::proof]
fn c19_session_stream_conversions_inverse() {
    let (v, s) = any_stream_id();
    assert!(StreamId::from(SessionId::from(s)) == s);
    let x = SessionId::try_from(v).unwrap();
    assert!(SessionId::from(StreamId::from(x)) == x);
    assert!(StreamId::from(x).into_inner() == v);
    kani::cover!(v == 4);
    kani::cover!(v == TWO62 - 1);
}

// vp: props=C19; tag=C19.session.ctor; kind=complete; tier=quick
// from_varint / try_from / into_inner carry the number unchanged; try_from refuses exactly v >= 2^62
#[kani::proof]
fn c19_session_id_constructors() {
    let v: u64 = kani::any();
    match SessionId::try_from(v) {
        Ok(x) => {
            assert!(v < TWO62);
            assert!(x.into_inner() == v);
            assert!(SessionId::from_varint(VarInt::from_u64(v).unwrap()) == x);
        }
        Err(e) => {
            assert!(v >= TWO62);
            assert!(e == InvalidStreamId(v));
        }
    }
    kani::cover!(v == TWO62);
    kani::cover!(v == TWO62 - 1);
}

// vp: props=C19,C14; tag=C19.session.encode; kind=complete; tier=quick
// on the wire a session id is the varint of its number (shortest form)
#[kani::proof]
#[kani::unwind(9)]
fn c19_session_id_encode_is_varint() {
    let v: u64 = kani::any();
    kani::assume(v < TWO62);
    let x = SessionId::try_from(v).unwrap();
    let mut arr = [0u8; 8];
    let written;
    {
        let mut w = &mut arr[..];
        x.encode(&mut w);
        written = 8 - w.len();
    }
    let (b, n) = spec_varint_enc(v);
    assert!(written == n);
    let mut i = 0;
    while i < 8 {
        if i < n {
            assert!(arr[i] == b[i]);
        }
        i += 1;
    }
    kani::cover!(n == 1);
    kani::cover!(n == 8);
}

// vp: props=C19,C06; tag=C19.session.decode; kind=complete; tier=quick
// decode reads exactly one varint (any of the four forms) and keeps its value; truncated => Err, no panic
#[kani::proof]
#[kani::unwind(10)]
fn c19_session_id_decode_is_varint() {
    let arr: [u8; 9] = kani::any();
    let len: usize = kani::any();
    kani::assume(len <= 9);
    let mut r: &[u8] = &arr[..len];
    let res = SessionId::decode(&mut r);
    match spec_varint_dec(&arr[..len]) {
        Some((v, n)) => {
            assert!(res.is_ok());
            assert!(res.unwrap().into_inner() == v);
            assert!(len - r.len() == n);
            // and it names the stream with that id
            assert!(StreamId::from(res.unwrap()).into_inner() == v);
        }
        None => {
            assert!(res.is_err());
        }
    }
    kani::cover!(res.is_ok() && len == 9);
    kani::cover!(res.is_err() && len == 3);
}
