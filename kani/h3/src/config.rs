// Kani harnesses attached (as a child module) to h3/src/config.rs — C13 (SETTINGS sent / applied), C06.
// Functions under check (the real ones): `TryFrom<Config> for frame::Settings`,
// `From<&frame::Settings> for config::Settings`, `Default for Settings/Config`, the server builder's
// setters (h3/src/server/builder.rs), and — through them — `frame::Settings::{insert,get,encode}`,
// `UniStreamHeader::encode` (h3/src/stream.rs; the body of `WriteBuf::from(UniStreamHeader)`).
use super::*;
#[path = "/verif/kani/_spec.rs"]
mod spec;
#[path = "/verif/kani/_putsink.rs"]
mod putsink;
use crate::proto::coding::Encode;
use crate::stream::UniStreamHeader;
use putsink::PutSink;
use spec::*;

/// `fastrand::u64` replacement (un-stubbed fastrand is a Kani internal compiler error): any value of the range
fn stub_fastrand_u64<R: std::ops::RangeBounds<u64>>(r: R) -> u64 {
    use std::ops::Bound::*;
    let x: u64 = kani::any();
    match r.start_bound() {
        Included(a) => kani::assume(x >= *a),
        Excluded(a) => kani::assume(x > *a),
        Unbounded => {}
    }
    match r.end_bound() {
        Included(b) => kani::assume(x <= *b),
        Excluded(b) => kani::assume(x < *b),
        Unbounded => {}
    }
    x
}

/// every `Config` value: all fields symbolic
fn any_config() -> Config {
    let mut c = Config::default();
    c.send_grease = kani::any();
    c.settings = Settings {
        max_field_section_size: kani::any(),
        enable_webtransport: kani::any(),
        enable_extended_connect: kani::any(),
        enable_datagram: kani::any(),
        max_webtransport_sessions: kani::any(),
    };
    c
}

fn b2u(b: bool) -> u64 {
    if b {
        1
    } else {
        0
    }
}

// vp: props=C13,C06; tag=C13.config.values; kind=complete; tier=quick
// for ALL Config values (incl. sizes >= 2^62, grease on/off, any grease id): the conversion never fails,
// never panics, and the list answers each identifier h3 announces with exactly the configured value;
// the QPACK table settings (not configurable: stateless QPACK) are not in the list.
#[kani::proof]
#[kani::stub(fastrand::u64, stub_fastrand_u64)]
#[kani::unwind(9)]
fn c13_config_conversion_total() {
    let cfg = any_config();
    let r = frame::Settings::try_from(cfg);
    match r {
        Err(_) => {
            assert!(false); // connection.rs: "converting a config to settings should never fail"
        }
        Ok(s) => {
            let get = |id: u64| s.get(frame::SettingId(id));
            assert!(get(SPEC_SETTINGS_MAX_FIELD_SECTION_SIZE) == Some(cfg.settings.max_field_section_size));
            assert!(get(SPEC_SETTINGS_ENABLE_CONNECT_PROTOCOL) == Some(b2u(cfg.settings.enable_extended_connect)));
            assert!(get(SPEC_SETTINGS_ENABLE_WEBTRANSPORT) == Some(b2u(cfg.settings.enable_webtransport)));
            assert!(get(SPEC_SETTINGS_H3_DATAGRAM) == Some(b2u(cfg.settings.enable_datagram)));
            assert!(get(SPEC_SETTINGS_WEBTRANSPORT_MAX_SESSIONS) == Some(cfg.settings.max_webtransport_sessions));
            assert!(get(SPEC_SETTINGS_QPACK_MAX_TABLE_CAPACITY).is_none());
            assert!(get(SPEC_SETTINGS_QPACK_BLOCKED_STREAMS).is_none());
        }
    }
    kani::cover!(cfg.send_grease && cfg.settings.max_field_section_size == u64::MAX);
    kani::cover!(!cfg.send_grease && cfg.settings.enable_webtransport && !cfg.settings.enable_datagram);
}

/// What h3 hands to the transport on its control stream for `cfg`: the real
/// `UniStreamHeader::Control(settings).encode(..)` (stream type, then `Settings::encode`) — the call
/// `WriteBuf::from(UniStreamHeader::Control(_))` makes — run against the recording sink
/// (/verif/kani/_putsink.rs): the sequence of varints must be, one by one in shortest form,
///   0x00 | 0x04 | L | [grease id, 0] | 0x06, max_field_section_size | 0x08, b | 0x2b603742, b | 0x33, b |
///   0x2b603743, max_webtransport_sessions
/// with L == the number of bytes after it, the whole image <= 64 bytes (WRITE_BUF_ENCODE_SIZE), no
/// identifier twice, none HTTP/2-reserved.  (The real 64-byte `&mut [u8]` of WriteBuf with ~14 varints at
/// symbolic offsets ran out of memory — 25 GB — so the byte-level image is the sink's; `WriteBuf`'s own
/// three lines are C14's harnesses.)
fn check_wire(cfg: Config) {
    let settings = match frame::Settings::try_from(cfg) {
        Ok(s) => s,
        Err(_) => {
            assert!(false);
            return;
        }
    };
    let mut sink = PutSink::new();
    UniStreamHeader::Control(settings).encode(&mut sink);

    let g: usize = if cfg.send_grease { 1 } else { 0 };
    assert!(sink.n == 3 + 2 * (5 + g));
    // expected (identifier, value) list, from the configuration
    let mut want = [(0u64, 0u64); 6];
    if cfg.send_grease {
        // identifier chosen by h3: read it back from the image and judge it
        let gid = spec_varint_dec(&sink.slot[3].0[..sink.slot[3].1]);
        match gid {
            Some((id, used)) => {
                assert!(used == sink.slot[3].1);
                assert!(spec_is_grease(id)); // RFC 9114 §7.2.4.1: 0x1f * N + 0x21
                want[0] = (id, 0);
            }
            None => {
                assert!(false);
            }
        }
    }
    want[g] = (SPEC_SETTINGS_MAX_FIELD_SECTION_SIZE, cfg.settings.max_field_section_size);
    want[g + 1] = (SPEC_SETTINGS_ENABLE_CONNECT_PROTOCOL, b2u(cfg.settings.enable_extended_connect));
    want[g + 2] = (SPEC_SETTINGS_ENABLE_WEBTRANSPORT, b2u(cfg.settings.enable_webtransport));
    want[g + 3] = (SPEC_SETTINGS_H3_DATAGRAM, b2u(cfg.settings.enable_datagram));
    want[g + 4] = (SPEC_SETTINGS_WEBTRANSPORT_MAX_SESSIONS, cfg.settings.max_webtransport_sessions);

    assert!(sink.slot[0] == spec_varint_enc(SPEC_ST_CONTROL)); // RFC 9114 §6.2.1
    assert!(sink.slot[1] == spec_varint_enc(SPEC_FT_SETTINGS)); // RFC 9114 §7.2.4
    let mut payload = 0usize;
    let mut i = 0;
    while i < 6 {
        if i < 5 + g {
            let (id, v) = want[i];
            assert!(sink.slot[3 + 2 * i] == spec_varint_enc(id));
            assert!(sink.slot[4 + 2 * i] == spec_varint_enc(v));
            payload += sink.slot[3 + 2 * i].1 + sink.slot[4 + 2 * i].1;
            // never an HTTP/2-reserved identifier, no identifier twice
            assert!(!spec_is_h2_reserved_setting(id));
            let mut j = 0;
            while j < i {
                assert!(want[j].0 != id);
                j += 1;
            }
        }
        i += 1;
    }
    assert!(sink.slot[2] == spec_varint_enc(payload as u64)); // Length == bytes that follow
    let total = 1 + 1 + sink.slot[2].1 + payload;
    // the stack buffer of WriteBuf: WRITE_BUF_ENCODE_SIZE = StreamType::MAX_ENCODED_SIZE + Frame::MAX_ENCODED_SIZE (h3/src/stream.rs)
    assert!(total <= crate::proto::stream::StreamType::MAX_ENCODED_SIZE + crate::proto::frame::Frame::<crate::proto::frame::PayloadLen>::MAX_ENCODED_SIZE);
}

// vp: props=C13,C14,C06; tag=C13.config.wire; kind=complete; tier=thorough
// grease off, every combination of the booleans, both sizes over all of [0, 2^62)
#[kani::proof]
#[kani::stub(fastrand::u64, stub_fastrand_u64)]
#[kani::unwind(9)]
fn c13_config_wire_nogrease() {
    let cfg = any_config();
    kani::assume(!cfg.send_grease);
    kani::assume(cfg.settings.max_field_section_size < TWO62);
    kani::assume(cfg.settings.max_webtransport_sessions < TWO62);
    check_wire(cfg);
    kani::cover!(cfg.settings.max_field_section_size == TWO62 - 1 && cfg.settings.max_webtransport_sessions == TWO62 - 1);
    kani::cover!(cfg.settings.max_field_section_size == 16384 && cfg.settings.enable_datagram);
}

// vp: props=C13,C14,C06; tag=C13.config.wire; kind=complete; tier=quick
// grease on (any id the generator can return), every combination of the booleans, both sizes over [0, 2^62)
#[kani::proof]
#[kani::stub(fastrand::u64, stub_fastrand_u64)]
#[kani::unwind(9)]
fn c13_config_wire_grease() {
    let cfg = any_config();
    kani::assume(cfg.send_grease);
    kani::assume(cfg.settings.max_field_section_size < TWO62);
    kani::assume(cfg.settings.max_webtransport_sessions < TWO62);
    check_wire(cfg);
    kani::cover!(cfg.settings.max_field_section_size == TWO62 - 1 && cfg.settings.max_webtransport_sessions == TWO62 - 1);
    kani::cover!(cfg.settings.max_field_section_size == 63 && !cfg.settings.enable_webtransport);
}

// vp: props=C13,C06; tag=C13.setup.nopanic.server; kind=complete; tier=quick
// "For every configuration the server builder accepts, connection setup completes without panicking":
// every argument of every public setter symbolic (both sizes over ALL of u64), then the setup path of
// `ConnectionInner::send_control_stream_headers` (conversion + encoding of the control stream header).
// The builder either keeps the value or, if it is not representable as a varint, stores the largest
// representable one; what it stores is what is sent (c13_config_wire_*).
#[kani::proof]
#[kani::stub(fastrand::u64, stub_fastrand_u64)]
#[kani::unwind(9)]
fn c13_server_builder_setup_no_panic() {
    let mfs: u64 = kani::any();
    let wts: u64 = kani::any();
    let (g, wt, ec, dg): (bool, bool, bool, bool) = (kani::any(), kani::any(), kani::any(), kani::any());
    let mut b = crate::server::builder();
    b.max_field_section_size(mfs)
        .send_grease(g)
        .enable_webtransport(wt)
        .enable_extended_connect(ec)
        .max_webtransport_sessions(wts)
        .enable_datagram(dg);
    let cfg = b.config;
    assert!(cfg.send_grease == g);
    assert!(cfg.settings.enable_webtransport == wt);
    assert!(cfg.settings.enable_extended_connect == ec);
    assert!(cfg.settings.enable_datagram == dg);
    let stored = cfg.settings.max_field_section_size;
    assert!(stored == mfs || (mfs >= TWO62 && stored == TWO62 - 1));
    let stored = cfg.settings.max_webtransport_sessions;
    assert!(stored == wts || (wts >= TWO62 && stored == TWO62 - 1));
    // connection setup
    match frame::Settings::try_from(cfg) {
        Err(_) => {
            assert!(false);
        }
        Ok(settings) => {
            let mut sink = PutSink::new();
            UniStreamHeader::Control(settings).encode(&mut sink); // must not panic
            assert!(sink.n >= 3 + 10);
        }
    }
    kani::cover!(mfs == 0 && wts == 1 && g);
    kani::cover!(mfs == TWO62 - 1 && wts == TWO62 - 1);
}

// vp: props=C13; tag=C13.defaults; kind=complete; tier=quick
// protocol defaults (used until the peer's SETTINGS arrive): unlimited field section size (RFC 9114
// §7.2.4.1), extensions off; the default Config sends grease and these values.
#[kani::proof]
fn c13_defaults() {
    let d = Settings::default();
    assert!(d.max_field_section_size == TWO62 - 1);
    assert!(!d.enable_webtransport && !d.enable_extended_connect && !d.enable_datagram);
    assert!(d.max_webtransport_sessions == 0);
    let c = Config::default();
    assert!(c.send_grease);
    assert!(c.settings.max_field_section_size == TWO62 - 1 && c.settings.max_webtransport_sessions == 0);
    kani::cover!(true);
}

// vp: props=C13; tag=C13.apply; kind=complete; tier=quick
// received SETTINGS are applied exactly: for every list `Settings::decode` can build (any sequence of
// up to 7 inserts of non-zero ids — the list stays duplicate-free by insert's contract), each known
// identifier takes the received value (booleans: value != 0), every other field keeps its default.
#[kani::proof]
#[kani::unwind(9)]
fn c13_apply_received_settings() {
    let mut fs = frame::Settings::default();
    // the oracle's own record of what was received first for each id of interest
    let mut mfs: Option<u64> = None;
    let mut wt: Option<u64> = None;
    let mut wts: Option<u64> = None;
    let mut dg: Option<u64> = None;
    let mut ec: Option<u64> = None;
    let n: usize = kani::any();
    kani::assume(n <= 7);
    let mut i = 0;
    while i < 7 {
        if i < n {
            let id: u64 = kani::any();
            let v: u64 = kani::any();
            kani::assume(id != 0); // 0 is HTTP/2-reserved: refused by decode before insert
            if fs.insert(frame::SettingId(id), v).is_ok() {
                if id == SPEC_SETTINGS_MAX_FIELD_SECTION_SIZE && mfs.is_none() {
                    mfs = Some(v);
                }
                if id == SPEC_SETTINGS_ENABLE_WEBTRANSPORT && wt.is_none() {
                    wt = Some(v);
                }
                if id == SPEC_SETTINGS_WEBTRANSPORT_MAX_SESSIONS && wts.is_none() {
                    wts = Some(v);
                }
                if id == SPEC_SETTINGS_H3_DATAGRAM && dg.is_none() {
                    dg = Some(v);
                }
                if id == SPEC_SETTINGS_ENABLE_CONNECT_PROTOCOL && ec.is_none() {
                    ec = Some(v);
                }
            }
        }
        i += 1;
    }
    let applied = Settings::from(&fs);
    let flag = |o: Option<u64>| match o {
        Some(v) => v != 0,
        None => false,
    };
    assert!(applied.max_field_section_size == match mfs { Some(v) => v, None => TWO62 - 1 });
    assert!(applied.max_webtransport_sessions == match wts { Some(v) => v, None => 0 });
    assert!(applied.enable_webtransport == flag(wt));
    assert!(applied.enable_datagram == flag(dg));
    assert!(applied.enable_extended_connect == flag(ec));
    kani::cover!(n == 7 && mfs == Some(5) && wt == Some(2) && dg == Some(0));
    kani::cover!(n == 0);
    kani::cover!(n == 3 && mfs.is_none() && ec == Some(1));
}
