// Kani harnesses attached (as a child module) to h3/src/proto/varint.rs — C16, C06.
use super::*;
#[path = "/verif/kani/_spec.rs"]
mod spec;
use spec::*;

// vp: props=C16; tag=C16.spec.roundtrip; kind=complete; tier=quick
// the spec functions themselves are inverse on [0, 2^62)
#[kani::proof]
#[kani::unwind(9)]
fn c16_spec_roundtrip() {
    let x: u64 = kani::any();
    kani::assume(x < TWO62);
    let (b, n) = spec_varint_enc(x);
    assert!(spec_varint_dec(&b[..n]) == Some((x, n)));
    kani::cover!(n == 1);
    kani::cover!(n == 8);
}

// vp: props=C16,C14; tag=C16.encode; kind=complete; tier=quick
// encode writes exactly spec_varint_enc(x): the shortest form, size() bytes
#[kani::proof]
#[kani::unwind(9)]
fn c16_encode_matches_spec() {
    let x: u64 = kani::any();
    kani::assume(x < TWO62);
    let v = VarInt::from_u64(x).unwrap();
    let mut arr = [0u8; 8];
    let written;
    {
        let mut w = &mut arr[..];
        v.encode(&mut w);
        written = 8 - w.len();
    }
    let (b, n) = spec_varint_enc(x);
    assert!(written == n);
    assert!(v.size() == n);
    let mut i = 0;
    while i < 8 {
        if i < n {
            assert!(arr[i] == b[i]);
        }
        i += 1;
    }
    assert!(VarInt::encoded_size(arr[0]) == n);
    kani::cover!(n == 2);
    kani::cover!(n == 4);
}

// vp: props=C16,C06,C02; tag=C16.decode; kind=complete; tier=quick
// every 1/2/4/8-byte encoding, minimal or not, decodes to its RFC value consuming exactly its
// length; a truncated encoding is UnexpectedEnd; never panics.  Complete: decode reads <= 8 bytes.
#[kani::proof]
#[kani::unwind(10)]
fn c16_decode_matches_spec() {
    let arr: [u8; 9] = kani::any();
    let len: usize = kani::any();
    kani::assume(len <= 9);
    let mut r: &[u8] = &arr[..len];
    let res = VarInt::decode(&mut r);
    match spec_varint_dec(&arr[..len]) {
        Some((v, n)) => {
            assert!(res == Ok(VarInt(v)));
            assert!(len - r.len() == n);
            assert!(v < TWO62);
        }
        None => {
            assert!(res.is_err());
        }
    }
    kani::cover!(res.is_err() && len == 7);
    kani::cover!(res.is_ok() && len == 9);
}

/// A `Buf` over at most nine bytes that hands them out in chunks cut at arbitrary (symbolic) places: a cut follows byte
/// `i` iff bit `i` of `cuts` is set.  `chunk()` is never empty while bytes remain (the `Buf` contract).
struct Chunked<'a> {
    data: &'a [u8],
    pos: usize,
    cuts: u16,
}
impl<'a> Buf for Chunked<'a> {
    fn remaining(&self) -> usize {
        self.data.len() - self.pos
    }
    fn chunk(&self) -> &[u8] {
        let mut end = self.pos;
        while end < self.data.len() {
            end += 1;
            if (self.cuts >> (end - 1)) & 1 == 1 {
                break;
            }
        }
        &self.data[self.pos..end]
    }
    fn advance(&mut self, cnt: usize) {
        assert!(cnt <= self.data.len() - self.pos);
        self.pos += cnt;
    }
}

// vp: props=C16,C06,C02,C18,C04; tag=C16.decode.chunked; kind=complete; tier=quick
// the same claim as c16_decode_matches_spec for a buffer that is not contiguous: every way of cutting the (at most
// nine) bytes into chunks — 2^9 cut patterns, symbolic — gives the RFC value, consumes exactly the encoding's length,
// reports a truncated encoding and never panics.  This is the contract the Verus units assume of `VarInt::decode` for an
// arbitrary `Buf` (BufList / Cursor / Take); complete: decode reads <= 8 bytes.
#[kani::proof]
#[kani::unwind(11)]
fn c16_decode_any_chunking() {
    let arr: [u8; 9] = kani::any();
    let len: usize = kani::any();
    kani::assume(len <= 9);
    let cuts: u16 = kani::any();
    let mut r = Chunked { data: &arr[..len], pos: 0, cuts };
    let res = VarInt::decode(&mut r);
    match spec_varint_dec(&arr[..len]) {
        Some((v, n)) => {
            assert!(res == Ok(VarInt(v)));
            assert!(r.pos == n);
        }
        None => {
            assert!(res.is_err());
        }
    }
    kani::cover!(res.is_ok() && len == 9 && cuts & 0xff == 0xff); // one-byte chunks
    kani::cover!(res.is_ok() && r.pos == 8 && cuts & 0xff == 0b0100_0100); // three chunks inside an 8-byte form
    kani::cover!(res.is_err() && len == 3 && cuts == 0b010);
}

// vp: props=C16; tag=C16.bounds; kind=complete; tier=quick
// the checked constructors refuse exactly the values >= 2^62
#[kani::proof]
fn c16_checked_constructors() {
    let x: u64 = kani::any();
    match VarInt::from_u64(x) {
        Ok(v) => assert!(x < TWO62 && v.into_inner() == x),
        Err(_) => assert!(x >= TWO62),
    }
    use std::convert::TryFrom;
    assert!(VarInt::try_from(x).is_ok() == (x < TWO62));
    assert!(VarInt::try_from(x as usize).is_ok() == (x < TWO62));
    assert!(VarInt::MAX.0 == TWO62 - 1);
    kani::cover!(x == TWO62);
    kani::cover!(x == TWO62 - 1);
}

// vp: props=C16,C06; tag=C16.getvar; kind=complete; tier=quick
// BufExt::get_var / BufMutExt::write_var are the same codec
#[kani::proof]
#[kani::unwind(10)]
fn c16_get_var_write_var() {
    let x: u64 = kani::any();
    kani::assume(x < TWO62);
    let mut arr = [0u8; 8];
    let written;
    {
        let mut w = &mut arr[..];
        BufMutExt::write_var(&mut w, x);
        written = 8 - w.len();
    }
    let (b, n) = spec_varint_enc(x);
    assert!(written == n);
    let mut r: &[u8] = &arr[..written];
    assert!(BufExt::get_var(&mut r) == Ok(x));
    assert!(r.is_empty());
    assert!(arr[0] == b[0] && arr[n - 1] == b[n - 1]);
    kani::cover!(n == 8);
}

// vp: props=C16,C02,C01; tag=C16.spec.renderings; kind=complete; tier=quick
// the closed forms the Verus units use (vdec / venc) are the same functions as the loop-form oracle, on the full domain
#[kani::proof]
#[kani::unwind(10)]
fn c16_spec_renderings_agree() {
    let arr: [u8; 9] = kani::any();
    let len: usize = kani::any();
    kani::assume(len <= 9);
    assert!(spec_varint_dec_horner(&arr[..len]) == spec_varint_dec(&arr[..len]));
    let x: u64 = kani::any();
    kani::assume(x < TWO62);
    let (a, n) = spec_varint_enc(x);
    let (b, m) = spec_varint_enc_div(x);
    assert!(n == m);
    let mut i = 0;
    while i < 8 { if i < n { assert!(a[i] == b[i]); } i += 1; }
    // UnexpectedEnd carries at most 3 (used by the frame decoder's memo proof)
    let mut r: &[u8] = &arr[..len];
    if let Err(e) = VarInt::decode(&mut r) { assert!(e.0 <= 3); }
    kani::cover!(n == 4);
    kani::cover!(len == 8);
}
