// Kani harness attached to h3/src/proto/push.rs — C16.
use super::*;
// vp: props=C16; tag=C16.pushid; kind=complete; tier=quick
#[kani::proof]
fn c16_pushid_bounds() {
    let v: u64 = kani::any();
    match PushId::try_from(v) {
        Ok(p) => assert!(v < 4611686018427387904 && p.0 == v),
        Err(_) => assert!(v >= 4611686018427387904),
    }
    kani::cover!(v == 4611686018427387904);
}
