// Kani harnesses attached (as a child module) to h3/src/proto/frame.rs — C13 (SETTINGS), C06.
// Functions under check (the real ones, reached through `super::*`):
//   SettingId::{is_supported,is_forbidden,grease}, Settings::{default,insert,get,encode,decode},
//   <Settings as FrameHeader>::len.
use super::*;
#[path = "/verif/kani/_spec.rs"]
mod spec;
use spec::*;

/// the identifiers an h3 endpoint understands (RFC 9114 §7.2.4.1, RFC 9204 §5, RFC 9220 §3, RFC 9297 §2.1.1,
/// draft-ietf-webtrans-http3 §8.2) — written from the RFCs, not from `is_supported`
const KNOWN: [u64; 7] = [
    SPEC_SETTINGS_QPACK_MAX_TABLE_CAPACITY,
    SPEC_SETTINGS_MAX_FIELD_SECTION_SIZE,
    SPEC_SETTINGS_QPACK_BLOCKED_STREAMS,
    SPEC_SETTINGS_ENABLE_CONNECT_PROTOCOL,
    SPEC_SETTINGS_H3_DATAGRAM,
    SPEC_SETTINGS_ENABLE_WEBTRANSPORT,
    SPEC_SETTINGS_WEBTRANSPORT_MAX_SESSIONS,
];

fn is_known(id: u64) -> bool {
    let mut k = 0;
    let mut r = false;
    while k < KNOWN.len() {
        if KNOWN[k] == id {
            r = true;
        }
        k += 1;
    }
    r
}

/// `fastrand::u64` replacement (un-stubbed fastrand is a Kani internal compiler error): any value of the range
pub(crate) fn stub_fastrand_u64<R: std::ops::RangeBounds<u64>>(r: R) -> u64 {
    use std::ops::Bound::*;
    let x: u64 = kani::any();
    match r.start_bound() {
        Included(a) => kani::assume(x >= *a),
        Excluded(a) => kani::assume(x > *a),
        Unbounded => {}
    }
    match r.end_bound() {
        Included(b) => kani::assume(x <= *b),
        Excluded(b) => kani::assume(x < *b),
        Unbounded => {}
    }
    x
}

/// any `Settings` value with `len <= 8`; all 8 slots arbitrary (no assumption on the padding slots)
fn any_settings_raw() -> Settings {
    let len: usize = kani::any();
    kani::assume(len <= SETTINGS_LEN);
    let mut entries = [(SettingId::NONE, 0u64); SETTINGS_LEN];
    let mut i = 0;
    while i < SETTINGS_LEN {
        entries[i] = (SettingId(kani::any()), kani::any());
        i += 1;
    }
    Settings { entries, len }
}

/// representation invariant of `Settings`: `len <= 8` and the unused slots still hold `(NONE, 0)`
/// (established by `default`, preserved by `insert` — both checked below; the fields are private)
fn settings_wf(s: &Settings) -> bool {
    let mut ok = s.len <= SETTINGS_LEN;
    let mut i = 0;
    while i < SETTINGS_LEN {
        if i >= s.len && s.entries[i] != (SettingId::NONE, 0) {
            ok = false;
        }
        i += 1;
    }
    ok
}

// vp: props=C13; tag=C13.ids; kind=complete; tier=quick
// is_forbidden == the HTTP/2-reserved identifiers of RFC 9114 §7.2.4.1/§11.2.2 (0x00, 0x02..0x05);
// is_supported == the seven identifiers h3 understands; the two classes are disjoint; NONE (the
// padding id) is forbidden on the wire, so a stored id is never 0.
#[kani::proof]
#[kani::unwind(9)]
fn c13_setting_id_classes() {
    let x: u64 = kani::any();
    let id = SettingId(x);
    assert!(id.is_forbidden() == spec_is_h2_reserved_setting(x));
    assert!(id.is_supported() == is_known(x));
    assert!(!(id.is_forbidden() && id.is_supported()));
    assert!(SettingId::NONE.is_forbidden());
    assert!(SettingId::MAX_HEADER_LIST_SIZE.0 == SPEC_SETTINGS_MAX_FIELD_SECTION_SIZE);
    assert!(SettingId::QPACK_MAX_TABLE_CAPACITY.0 == SPEC_SETTINGS_QPACK_MAX_TABLE_CAPACITY);
    assert!(SettingId::QPACK_MAX_BLOCKED_STREAMS.0 == SPEC_SETTINGS_QPACK_BLOCKED_STREAMS);
    assert!(SettingId::ENABLE_CONNECT_PROTOCOL.0 == SPEC_SETTINGS_ENABLE_CONNECT_PROTOCOL);
    assert!(SettingId::H3_DATAGRAM.0 == SPEC_SETTINGS_H3_DATAGRAM);
    assert!(SettingId::ENABLE_WEBTRANSPORT.0 == SPEC_SETTINGS_ENABLE_WEBTRANSPORT);
    assert!(SettingId::WEBTRANSPORT_MAX_SESSIONS.0 == SPEC_SETTINGS_WEBTRANSPORT_MAX_SESSIONS);
    kani::cover!(x == 0x05);
    kani::cover!(x == 0x2b603743);
    kani::cover!(x == 0x09);
}

// vp: props=C13,C14; tag=C13.grease; kind=complete; tier=quick
// every id the grease generator can return is of the 0x1f*N+0x21 form, a valid varint, not
// HTTP/2-reserved and not one of the understood ids (so it can never collide with a real setting)
#[kani::proof]
#[kani::stub(fastrand::u64, stub_fastrand_u64)]
#[kani::unwind(9)]
fn c13_setting_id_grease() {
    let g = SettingId::grease();
    assert!(spec_is_grease(g.0));
    assert!(g.0 < TWO62);
    assert!(!spec_is_h2_reserved_setting(g.0));
    assert!(!g.is_forbidden());
    assert!(!is_known(g.0));
    assert!(!g.is_supported());
    kani::cover!(g.0 == 0x21);
    kani::cover!(g.0 > TWO62 - 64);
}

// vp: props=C13,C06; tag=C13.insert; kind=complete; tier=quick
// insert: Exceeded only when all 8 slots are used; Repeated(id) exactly when a slot is free and the
// id is already stored; otherwise Ok, the pair is appended at position len, every other slot keeps
// its content.  On Err nothing changes.  Preserves the representation invariant and
// "stored ids pairwise distinct".  Never panics (index, overflow) for any state with len <= 8.
#[kani::proof]
#[kani::unwind(9)]
fn c13_insert_contract() {
    let mut s = any_settings_raw();
    let old_entries = s.entries;
    let old_len = s.len;
    let was_wf = settings_wf(&s);
    let id = SettingId(kani::any());
    let value: u64 = kani::any();

    let mut present = false;
    let mut distinct = true;
    let mut i = 0;
    while i < SETTINGS_LEN {
        if i < old_len {
            if old_entries[i].0 == id {
                present = true;
            }
            let mut j = 0;
            while j < i {
                if old_entries[j].0 == old_entries[i].0 {
                    distinct = false;
                }
                j += 1;
            }
        }
        i += 1;
    }

    let r = s.insert(id, value);

    match r {
        Err(SettingsError::Exceeded) => {
            assert!(old_len == SETTINGS_LEN);
            assert!(s.len == old_len && s.entries == old_entries);
        }
        Err(SettingsError::Repeated(x)) => {
            assert!(x == id);
            assert!(old_len < SETTINGS_LEN && present);
            assert!(s.len == old_len && s.entries == old_entries);
        }
        Err(_) => {
            assert!(false);
        }
        Ok(()) => {
            assert!(old_len < SETTINGS_LEN && !present);
            assert!(s.len == old_len + 1);
            assert!(s.entries[old_len] == (id, value));
            let mut k = 0;
            while k < SETTINGS_LEN {
                if k != old_len {
                    assert!(s.entries[k] == old_entries[k]);
                }
                k += 1;
            }
            if distinct {
                // still pairwise distinct
                let mut a = 0;
                while a < SETTINGS_LEN {
                    let mut b = 0;
                    while b < a {
                        if a < s.len {
                            assert!(s.entries[a].0 != s.entries[b].0);
                        }
                        b += 1;
                    }
                    a += 1;
                }
            }
            if was_wf {
                assert!(settings_wf(&s));
            }
        }
    }
    // the three outcomes are decided exactly by (full, present)
    assert!(r.is_ok() == (old_len < SETTINGS_LEN && !present));
    kani::cover!(r.is_ok() && old_len == 7);
    kani::cover!(r == Err(SettingsError::Exceeded));
    kani::cover!(matches!(r, Err(SettingsError::Repeated(_))) && old_len == 7);
    kani::cover!(was_wf && r.is_ok() && old_len == 3);
}

// vp: props=C13; tag=C13.default; kind=complete; tier=quick
// the empty list satisfies the representation invariant and answers None to every non-zero id
#[kani::proof]
#[kani::unwind(9)]
fn c13_default_is_empty() {
    let s = Settings::default();
    assert!(s.len == 0);
    assert!(settings_wf(&s));
    let x: u64 = kani::any();
    kani::assume(x != 0);
    assert!(s.get(SettingId(x)).is_none());
    kani::cover!(x == 6);
}

// vp: props=C13; tag=C13.get; kind=complete; tier=quick
// get(id), id != 0 (0 is the padding id, HTTP/2-reserved, never queried and never stored from the wire):
// Some(v) exactly when (id, v) is the first stored pair with that id among the len used slots; the
// padding slots never answer.
#[kani::proof]
#[kani::unwind(9)]
fn c13_get_contract() {
    let s = any_settings_raw();
    kani::assume(settings_wf(&s));
    let x: u64 = kani::any();
    kani::assume(x != 0);
    let mut want: Option<u64> = None;
    let mut i = 0;
    while i < SETTINGS_LEN {
        if i < s.len && want.is_none() && s.entries[i].0 == SettingId(x) {
            want = Some(s.entries[i].1);
        }
        i += 1;
    }
    let got = s.get(SettingId(x));
    assert!(got == want);
    kani::cover!(got.is_some() && s.len == 8);
    kani::cover!(got.is_none() && s.len == 5);
    kani::cover!(got == Some(0) && s.len == 1);
}

/// encode `s` into a stack buffer, return (buffer, bytes written)
fn encode_to_array(s: &Settings) -> ([u8; 136], usize) {
    let mut arr = [0u8; 136];
    let written;
    {
        let mut w = &mut arr[..];
        s.encode(&mut w);
        written = 136 - w.len();
    }
    (arr, written)
}

fn check_encode(s: &Settings) {
    let (arr, written) = encode_to_array(s);
    // an independent SETTINGS parser reads back exactly the stored pairs, in order
    match spec_settings_frame_dec(&arr[..written]) {
        None => {
            assert!(false);
        }
        Some((p, total, hdr_minimal)) => {
            assert!(total == written); // Length field == number of bytes that follow it
            assert!(hdr_minimal); // type is the single byte 0x04, Length in shortest form
            assert!(p.minimal); // every id and value in shortest varint form
            assert!(p.n == s.len);
            let mut i = 0;
            while i < SETTINGS_LEN {
                if i < s.len {
                    assert!(p.pairs[i] == (s.entries[i].0 .0, s.entries[i].1));
                }
                i += 1;
            }
        }
    }
    // FrameHeader::len is the payload length, and fits MAX_ENCODED_SIZE
    let payload = FrameHeader::len(s);
    assert!(payload <= Settings::MAX_ENCODED_SIZE);
    assert!(written == 1 + spec_varint_len(payload as u64) + payload);
    assert!(arr[0] == 0x04);
}

fn assume_encodable(s: &Settings) {
    // precondition of encode: every stored id and value is a varint (< 2^62) — `VarInt::from_u64(..).unwrap()`
    let mut i = 0;
    while i < SETTINGS_LEN {
        if i < s.len {
            kani::assume(s.entries[i].0 .0 < TWO62 && s.entries[i].1 < TWO62);
        }
        i += 1;
    }
}

// vp: props=C13,C14; tag=C13.encode; kind=complete; tier=quick
// encode, lists of 0..=4 pairs (any ids / values < 2^62): the bytes are one SETTINGS frame whose
// independent decoding is exactly the stored pairs in order, shortest-form varints, exact Length.
#[kani::proof]
#[kani::unwind(18)]
fn c13_encode_matches_spec_le4() {
    let s = any_settings_raw();
    kani::assume(s.len <= 4);
    assume_encodable(&s);
    check_encode(&s);
    kani::cover!(s.len == 0);
    kani::cover!(s.len == 4 && s.entries[3].1 == TWO62 - 1);
}

// vp: props=C13,C14; tag=C13.encode; kind=complete; tier=thorough
// same for 5..=8 pairs (8 is the capacity of the list — the code's own bound)
#[kani::proof]
#[kani::unwind(18)]
fn c13_encode_matches_spec_gt4() {
    let s = any_settings_raw();
    kani::assume(s.len > 4);
    assume_encodable(&s);
    check_encode(&s);
    kani::cover!(s.len == 8 && s.entries[7].0 .0 == TWO62 - 1 && s.entries[0].1 == TWO62 - 1);
    kani::cover!(s.len == 5);
}

const KNOWN_FOR_DECODE: [u64; 7] = KNOWN;

fn check_decode(arr: &[u8], len: usize) {
    let mut r: &[u8] = &arr[..len];
    let res = Settings::decode(&mut r);
    let (verdict, applied) = spec_settings_verdict(&arr[..len], &KNOWN_FOR_DECODE);
    match verdict {
        SpecSettingsVerdict::Ok => match &res {
            Ok(s) => {
                // accepted: whole payload read, exactly the understood pairs stored, in wire order
                assert!(r.is_empty());
                assert!(s.len == applied.n);
                assert!(settings_wf(s));
                let mut i = 0;
                while i < SETTINGS_LEN {
                    if i < s.len {
                        assert!((s.entries[i].0 .0, s.entries[i].1) == applied.pairs[i]);
                        assert!(is_known(s.entries[i].0 .0));
                    }
                    i += 1;
                }
            }
            Err(_) => {
                assert!(false);
            }
        },
        SpecSettingsVerdict::Malformed => {
            assert!(res == Err(SettingsError::Malformed));
        }
        SpecSettingsVerdict::Reserved(id) => {
            assert!(res == Err(SettingsError::InvalidSettingId(id)));
        }
        SpecSettingsVerdict::Repeated(id) => {
            assert!(res == Err(SettingsError::Repeated(SettingId(id))));
        }
    }
    assert!(res != Err(SettingsError::Exceeded));
}

// vp: props=C13,C06; tag=C13.decode; kind=bounded; bound=5 bytes; tier=quick
// decode on every payload of <= 5 bytes == the wire-order SETTINGS receiver of the spec library
#[kani::proof]
#[kani::unwind(8)]
fn c13_decode_short_5() {
    let arr: [u8; 5] = kani::any();
    let len: usize = kani::any();
    kani::assume(len <= 5);
    check_decode(&arr, len);
    kani::cover!(len == 5 && arr[0] == 0xab); // the 4-byte id 0x2b603742 + 1-byte value
    kani::cover!(len == 4 && arr[0] == 0x06 && arr[2] == 0x06); // repeat
    kani::cover!(len == 3 && arr[0] == 0x21); // unknown id, then a truncated pair
    kani::cover!(len == 2 && arr[0] == 0x04); // reserved
}

// vp: props=C13,C06; tag=C13.decode; kind=bounded; bound=8 bytes; tier=thorough
// the same on every payload of <= 8 bytes (24 bytes is out of Kani's reach; the unbounded statement is
// the Verus unit's)
#[kani::proof]
#[kani::unwind(11)]
fn c13_decode_short_8() {
    let arr: [u8; 8] = kani::any();
    let len: usize = kani::any();
    kani::assume(len <= 8);
    check_decode(&arr, len);
    kani::cover!(len == 8 && arr[0] == 0x06 && arr[2] == 0x08 && arr[4] == 0x33 && arr[6] == 0x01);
    kani::cover!(len == 8 && arr[0] == 0x21 && arr[2] == 0x21 && arr[4] == 0x21 && arr[6] == 0x21); // same unknown id 4 times
    kani::cover!(len == 7);
}
