// Kani harnesses attached (as a child module) to h3/src/proto/frame.rs — C13 (SETTINGS), C06.
// Functions under check (the real ones, reached through `super::*`):
//   SettingId::{is_supported,is_forbidden,grease}, Settings::{default,insert,get,encode,decode},
//   <Settings as FrameHeader>::len.
use super::*;
#[path = "/verif/kani/_spec.rs"]
mod spec;
use spec::*;

/// the identifiers an h3 endpoint understands (RFC 9114 §7.2.4.1, RFC 9204 §5, RFC 9220 §3, RFC 9297 §2.1.1,
/// draft-ietf-webtrans-http3 §8.2) — written from the RFCs, not from `is_supported`
const KNOWN: [u64; 7] = [
    SPEC_SETTINGS_QPACK_MAX_TABLE_CAPACITY,
    SPEC_SETTINGS_MAX_FIELD_SECTION_SIZE,
    SPEC_SETTINGS_QPACK_BLOCKED_STREAMS,
    SPEC_SETTINGS_ENABLE_CONNECT_PROTOCOL,
    SPEC_SETTINGS_H3_DATAGRAM,
    SPEC_SETTINGS_ENABLE_WEBTRANSPORT,
    SPEC_SETTINGS_WEBTRANSPORT_MAX_SESSIONS,
];

fn is_known(id: u64) -> bool {
    let mut k = 0;
    let mut r = false;
    while k < KNOWN.len() {
        if KNOWN[k] == id {
            r = true;
        }
        k += 1;
    }
    r
}

/// `fastrand::u64` replacement (un-stubbed fastrand is a Kani internal compiler error): any value of the range
pub(crate) fn stub_fastrand_u64<R: std::ops::RangeBounds<u64>>(r: R) -> u64 {
    use std::ops::Bound::*;
    let x: u64 = kani::any();
    match r.start_bound() {
        Included(a) => kani::assume(x >= *a),
        Excluded(a) => kani::assume(x > *a),
        Unbounded => {}
    }
    match r.end_bound() {
        Included(b) => kani::assume(x <= *b),
        Excluded(b) => kani::assume(x < *b),
        Unbounded => {}
    }
    x
}

/// any `Settings` value with `len <= 8`; all 8 slots arbitrary (no assumption on the padding slots)
fn any_settings_raw() -> Settings {
    let len: usize = kani::any();
    kani::assume(len <= SETTINGS_LEN);
    let mut entries = [(SettingId::NONE, 0u64); SETTINGS_LEN];
    let mut i = 0;
    while i < SETTINGS_LEN {
        entries[i] = (SettingId(kani::any()), kani::any());
        i += 1;
    }
    Settings { entries, len }
}

/// representation invariant of `Settings`: `len <= 8` and the unused slots still hold `(NONE, 0)`
/// (established by `default`, preserved by `insert` — both checked below; the fields are private)
fn settings_wf(s: &Settings) -> bool {
    let mut ok = s.len <= SETTINGS_LEN;
    let mut i = 0;
    while i < SETTINGS_LEN {
        if i >= s.len && s.entries[i] != (SettingId::NONE, 0) {
            ok = false;
        }
        i += 1;
    }
    ok
}

// vp: props=C13; tag=C13.ids; kind=complete; tier=quick
// is_forbidden == the HTTP/2-reserved identifiers of RFC 9114 §7.2.4.1/§11.2.2 (0x00, 0x02..0x05);
// is_supported == the seven identifiers h3 understands; the two classes are disjoint; NONE (the
// padding id) is forbidden on the wire, so a stored id is never 0.
#[kani::proof]
#[kani::unwind(9)]
fn c13_setting_id_classes() {
    let x: u64 = kani::any();
    let id = SettingId(x);
    assert!(id.is_forbidden() == spec_is_h2_reserved_setting(x));
    assert!(id.is_supported() == is_known(x));
    assert!(!(id.is_forbidden() && id.is_supported()));
    assert!(SettingId::NONE.is_forbidden());
    assert!(SettingId::MAX_HEADER_LIST_SIZE.0 == SPEC_SETTINGS_MAX_FIELD_SECTION_SIZE);
    assert!(SettingId::QPACK_MAX_TABLE_CAPACITY.0 == SPEC_SETTINGS_QPACK_MAX_TABLE_CAPACITY);
    assert!(SettingId::QPACK_MAX_BLOCKED_STREAMS.0 == SPEC_SETTINGS_QPACK_BLOCKED_STREAMS);
    assert!(SettingId::ENABLE_CONNECT_PROTOCOL.0 == SPEC_SETTINGS_ENABLE_CONNECT_PROTOCOL);
    assert!(SettingId::H3_DATAGRAM.0 == SPEC_SETTINGS_H3_DATAGRAM);
    assert!(SettingId::ENABLE_WEBTRANSPORT.0 == SPEC_SETTINGS_ENABLE_WEBTRANSPORT);
    assert!(SettingId::WEBTRANSPORT_MAX_SESSIONS.0 == SPEC_SETTINGS_WEBTRANSPORT_MAX_SESSIONS);
    kani::cover!(x == 0x05);
    kani::cover!(x == 0x2b603743);
    kani::cover!(x == 0x09);
}

// vp: props=C13,C14; tag=C13.grease; kind=complete; tier=quick
// every id the grease generator can return is of the 0x1f*N+0x21 form, a valid varint, not
// HTTP/2-reserved and not one of the understood ids (so it can never collide with a real setting)
#[kani::proof]
#[kani::stub(fastrand::u64, stub_fastrand_u64)]
#[kani::unwind(9)]
fn c13_setting_id_grease() {
    let g = SettingId::grease();
    assert!(spec_is_grease(g.0));
    assert!(g.0 < TWO62);
    assert!(!spec_is_h2_reserved_setting(g.0));
    assert!(!g.is_forbidden());
    assert!(!is_known(g.0));
    assert!(!g.is_supported());
    kani::cover!(g.0 == 0x21);
    kani::cover!(g.0 > TWO62 - 64);
}

// vp: props=C13,C06; tag=C13.insert; kind=complete; tier=quick
// insert: Exceeded only when all 8 slots are used; Repeated(id) exactly when a slot is free and the
// id is already stored; otherwise Ok, the pair is appended at position len, every other slot keeps
// its content.  On Err nothing changes.  Preserves the representation invariant and
// "stored ids pairwise distinct".  Never panics (index, overflow) for any state with len <= 8.
#[kani::proof]
#[kani::unwind(9)]
fn c13_insert_contract() {
    let mut s = any_settings_raw();
    let old_entries = s.entries;
    let old_len = s.len;
    let was_wf = settings_wf(&s);
    let id = SettingId(kani::any());
    let value: u64 = kani::any();

    let mut present = false;
    let mut distinct = true;
    let mut i = 0;
    while i < SETTINGS_LEN {
        if i < old_len {
            if old_entries[i].0 == id {
                present = true;
            }
            let mut j = 0;
            while j < i {
                if old_entries[j].0 == old_entries[i].0 {
                    distinct = false;
                }
                j += 1;
            }
        }
        i += 1;
    }

    let r = s.insert(id, value);

    match r {
        Err(SettingsError::Exceeded) => {
            assert!(old_len == SETTINGS_LEN);
            assert!(s.len == old_len && s.entries == old_entries);
        }
        Err(SettingsError::Repeated(x)) => {
            assert!(x == id);
            assert!(old_len < SETTINGS_LEN && present);
            assert!(s.len == old_len && s.entries == old_entries);
        }
        Err(_) => {
            assert!(false);
        }
        Ok(()) => {
            assert!(old_len < SETTINGS_LEN && !present);
            assert!(s.len == old_len + 1);
            assert!(s.entries[old_len] == (id, value));
            let mut k = 0;
            while k < SETTINGS_LEN {
                if k != old_len {
                    assert!(s.entries[k] == old_entries[k]);
                }
                k += 1;
            }
            if distinct {
                // still pairwise distinct
                let mut a = 0;
                while a < SETTINGS_LEN {
                    let mut b = 0;
                    while b < a {
                        if a < s.len {
                            assert!(s.entries[a].0 != s.entries[b].0);
                        }
                        b += 1;
                    }
                    a += 1;
                }
            }
            if was_wf {
                assert!(settings_wf(&s));
            }
        }
    }
    // the three outcomes are decided exactly by (full, present)
    assert!(r.is_ok() == (old_len < SETTINGS_LEN && !present));
    kani::cover!(r.is_ok() && old_len == 7);
    kani::cover!(r == Err(SettingsError::Exceeded));
    kani::cover!(matches!(r, Err(SettingsError::Repeated(_))) && old_len == 7);
    kani::cover!(was_wf && r.is_ok() && old_len == 3);
}

// vp: props=C13; tag=C13.default; kind=complete; tier=quick
// the empty list satisfies the representation invariant and answers None to every non-zero id
#[kani::proof]
#[kani::unwind(9)]
fn c13_default_is_empty() {
    let s = Settings::default();
    assert!(s.len == 0);
    assert!(settings_wf(&s));
    let x: u64 = kani::any();
    kani::assume(x != 0);
    assert!(s.get(SettingId(x)).is_none());
    kani::cover!(x == 6);
}

// vp: props=C13; tag=C13.get; kind=complete; tier=quick
// get(id), id != 0 (0 is the padding id, HTTP/2-reserved, never queried and never stored from the wire):
// Some(v) exactly when (id, v) is the first stored pair with that id among the len used slots; the
// padding slots never answer.
#[kani::proof]
#[kani::unwind(9)]
fn c13_get_contract() {
    let s = any_settings_raw();
    kani::assume(settings_wf(&s));
    let x: u64 = kani::any();
    kani::assume(x != 0);
    let mut want: Option<u64> = None;
    let mut i = 0;
    while i < SETTINGS_LEN {
        if i < s.len && want.is_none() && s.entries[i].0 == SettingId(x) {
            want = Some(s.entries[i].1);
        }
        i += 1;
    }
    let got = s.get(SettingId(x));
    assert!(got == want);
    kani::cover!(got.is_some() && s.len == 8);
    kani::cover!(got.is_none() && s.len == 5);
    kani::cover!(got == Some(0) && s.len == 1);
}

// ------------------------------------------------------------------------------------------------
// encode.  A fully symbolic 8-entry list written into a real `&mut [u8]` puts 18 varints at symbolic
// offsets and does not finish (> 40 min, measured).  So the general contract is checked through a
// recording sink: `Settings::encode` performs exactly one `put_u8/u16/u32/u64` per varint (proved: every
// other BufMut entry point of the sink is `unreachable`), the sink keeps the k-th put in slot k (concrete
// index; /verif/kani/_putsink.rs), and each slot is compared with `spec_varint_enc` of the value the RFC puts there.  The real
// `&mut [u8]` sink is used for lists of <= 2 entries below and for the Config-level harnesses in
// kani/h3/src/config.rs (ids concrete), where an independent SETTINGS parser reads the bytes back.
// Assumed below the function: `BufMut::put_uN` appends the N big-endian bytes (the documented `bytes`
// contract; `VarInt::encode` on the real `&mut [u8]` is C16's c16_encode_matches_spec).

#[path = "/verif/kani/_putsink.rs"]
mod putsink;
use putsink::PutSink;

macro_rules! for8 {
    ($i:ident, $body:block) => {{
        { let $i: usize = 0; $body }
        { let $i: usize = 1; $body }
        { let $i: usize = 2; $body }
        { let $i: usize = 3; $body }
        { let $i: usize = 4; $body }
        { let $i: usize = 5; $body }
        { let $i: usize = 6; $body }
        { let $i: usize = 7; $body }
    }};
}

fn assume_encodable(s: &Settings) {
    // precondition of encode: every stored id and value is a varint (< 2^62) — `VarInt::from_u64(..).unwrap()`
    for8!(i, {
        if i < s.len {
            kani::assume(s.entries[i].0 .0 < TWO62 && s.entries[i].1 < TWO62);
        }
    });
}

// vp: props=C13,C14,C06; tag=C13.encode; kind=complete; tier=thorough
// encode, any list of 0..=8 pairs with ids / values < 2^62: the frame is
//   varint(0x04) varint(L) varint(id_0) varint(v_0) ... varint(id_{len-1}) varint(v_{len-1})
// each in shortest form (== spec_varint_enc), nothing else, L == number of bytes after the Length field
// == FrameHeader::len() <= MAX_ENCODED_SIZE.  No panic (unwrap, unreachable!, index, overflow).
#[kani::proof]
#[kani::unwind(9)]
fn c13_encode_matches_spec() {
    let s = any_settings_raw();
    assume_encodable(&s);
    let mut sink = PutSink::new();
    s.encode(&mut sink);

    assert!(sink.n == 2 + 2 * s.len);
    let mut payload: usize = 0;
    for8!(i, {
        if i < s.len {
            let (id, v) = (s.entries[i].0 .0, s.entries[i].1);
            assert!(sink.slot[2 + 2 * i] == spec_varint_enc(id));
            assert!(sink.slot[3 + 2 * i] == spec_varint_enc(v));
            payload += spec_varint_len(id) + spec_varint_len(v);
        }
    });
    assert!(sink.slot[0] == spec_varint_enc(SPEC_FT_SETTINGS));
    assert!(sink.slot[1] == spec_varint_enc(payload as u64));
    assert!(FrameHeader::len(&s) == payload);
    assert!(payload <= Settings::MAX_ENCODED_SIZE);
    kani::cover!(s.len == 0);
    kani::cover!(s.len == 8 && payload == 128);
    kani::cover!(s.len == 8 && payload == 16);
    kani::cover!(s.len == 5 && s.entries[4].1 == 16384);
}

/// encode `s` into a real stack buffer, return (buffer, bytes written)
fn encode_to_array(s: &Settings) -> ([u8; 40], usize) {
    let mut arr = [0u8; 40];
    let written;
    {
        let mut w = &mut arr[..];
        s.encode(&mut w);
        written = 40 - w.len();
    }
    (arr, written)
}

// vp: props=C13,C14; tag=C13.encode.wire; kind=bounded; bound=2 entries; tier=thorough
// the same through the real `&mut [u8]` sink for lists of <= 2 arbitrary pairs: an independent SETTINGS
// parser reads back exactly the stored pairs in order, all varints shortest form, Length exact.
// (The 5/6-entry lists h3 really sends are checked this way, unbounded in the values, in config.rs.)
#[kani::proof]
#[kani::unwind(9)]
fn c13_encode_wire_le2() {
    let s = any_settings_raw();
    kani::assume(s.len <= 2);
    assume_encodable(&s);
    let (arr, written) = encode_to_array(&s);
    match spec_settings_frame_dec(&arr[..written]) {
        None => {
            assert!(false);
        }
        Some((p, total, hdr_minimal)) => {
            assert!(total == written); // Length field == number of bytes that follow it
            assert!(hdr_minimal); // type is the single byte 0x04, Length in shortest form
            assert!(p.minimal); // every id and value in shortest varint form
            assert!(p.n == s.len);
            if s.len > 0 {
                assert!(p.pairs[0] == (s.entries[0].0 .0, s.entries[0].1));
            }
            if s.len > 1 {
                assert!(p.pairs[1] == (s.entries[1].0 .0, s.entries[1].1));
            }
        }
    }
    kani::cover!(s.len == 2 && written == 34);
    kani::cover!(s.len == 0 && written == 2);
}

// ------------------------------------------------------------------------------------------------
// decode (bounded replay aid; the unbounded statement is the Verus unit's)

fn is_known_lf(id: u64) -> bool {
    id == SPEC_SETTINGS_QPACK_MAX_TABLE_CAPACITY
        || id == SPEC_SETTINGS_MAX_FIELD_SECTION_SIZE
        || id == SPEC_SETTINGS_QPACK_BLOCKED_STREAMS
        || id == SPEC_SETTINGS_ENABLE_CONNECT_PROTOCOL
        || id == SPEC_SETTINGS_H3_DATAGRAM
        || id == SPEC_SETTINGS_ENABLE_WEBTRANSPORT
        || id == SPEC_SETTINGS_WEBTRANSPORT_MAX_SESSIONS
}

fn check_decode(arr: &[u8], len: usize) {
    let mut r: &[u8] = &arr[..len];
    let res = Settings::decode(&mut r);
    let (verdict, applied) = spec_settings_verdict(&arr[..len], is_known_lf);
    match verdict {
        SpecSettingsVerdict::Ok => match &res {
            Ok(s) => {
                // accepted: whole payload read, exactly the understood pairs stored, in wire order
                assert!(r.is_empty());
                assert!(s.len == applied.n);
                for8!(i, {
                    if i < s.len {
                        assert!((s.entries[i].0 .0, s.entries[i].1) == applied.pairs[i]);
                    } else {
                        assert!(s.entries[i] == (SettingId::NONE, 0)); // representation invariant
                    }
                });
            }
            Err(_) => {
                assert!(false);
            }
        },
        SpecSettingsVerdict::Malformed => {
            assert!(res == Err(SettingsError::Malformed));
        }
        SpecSettingsVerdict::Reserved(id) => {
            assert!(res == Err(SettingsError::InvalidSettingId(id)));
        }
        SpecSettingsVerdict::Repeated(id) => {
            assert!(res == Err(SettingsError::Repeated(SettingId(id))));
        }
    }
}

// vp: props=C13,C06; tag=C13.decode; kind=bounded; bound=4 bytes; tier=quick
// decode on every payload of <= 4 bytes == the wire-order SETTINGS receiver of the spec library:
// Ok <=> whole number of (varint, varint) pairs, no HTTP/2-reserved id, no understood id twice; then the
// stored list == the understood pairs in wire order, unknown ids ignored, everything consumed;
// truncated => Malformed; reserved => InvalidSettingId(id); repeat => Repeated(id); no panic.
#[kani::proof]
#[kani::unwind(4)]
fn c13_decode_short_4() {
    let arr: [u8; 4] = kani::any();
    let len: usize = kani::any();
    kani::assume(len <= 4);
    check_decode(&arr, len);
    kani::cover!(len == 4 && arr[0] == 0x40 && arr[1] == 0x06 && arr[2] == 0x40); // non-minimal id and value
    kani::cover!(len == 4 && arr[0] == 0x06 && arr[2] == 0x06); // repeat
    kani::cover!(len == 3 && arr[0] == 0x21); // unknown id, then a truncated pair
    kani::cover!(len == 2 && arr[0] == 0x04); // reserved
}

// vp: props=C13,C06; tag=C13.decode; kind=bounded; bound=8 bytes; tier=thorough
// the same on every payload of <= 8 bytes (24 bytes is out of Kani's reach, DESIGN §2)
#[kani::proof]
#[kani::unwind(9)]
fn c13_decode_short_8() {
    let arr: [u8; 8] = kani::any();
    let len: usize = kani::any();
    kani::assume(len <= 8);
    check_decode(&arr, len);
    kani::cover!(len == 8 && arr[0] == 0x06 && arr[2] == 0x08 && arr[4] == 0x33 && arr[6] == 0x01);
    kani::cover!(len == 8 && arr[0] == 0x21 && arr[2] == 0x21 && arr[4] == 0x21 && arr[6] == 0x21); // one unknown id 4 times
    kani::cover!(len == 7);
}
