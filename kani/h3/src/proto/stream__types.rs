// Kani harnesses attached (as a child module) to h3/src/proto/stream.rs — C14 (stream types h3 writes).
// (`kani/h3/src/proto/stream.rs` holds the C16 stream-id harnesses; this file has the `__types` suffix.)
//
// Functions under check (real code): `StreamType::{encode, grease, value, from_value}`, `impl Decode for
// StreamType`, the `stream_types!` constants.
// Spec: RFC 9114 §6.2 (a unidirectional stream begins with its type as a varint), §11.2.4 (values),
// §6.2.3 (reserved types 0x1f*N+0x21), draft-ietf-webtrans-http3 (0x54 uni stream, 0x41 bidi signal).
use super::*;
#[path = "/verif/kani/_spec.rs"]
mod spec;
use spec::*;

static mut RAND_LOG: u64 = 0;
static mut RAND_CNT: usize = 0;
/// any value of the requested range; logs it so that the result can be compared with 0x1f * N + 0x21 for
/// the very N that was drawn (cheaper for the SAT solver than `% 0x1f` on a product)
fn stub_fastrand_u64<R: std::ops::RangeBounds<u64>>(r: R) -> u64 {
    let x: u64 = kani::any();
    kani::assume(r.contains(&x));
    unsafe {
        RAND_LOG = x;
        RAND_CNT += 1;
    }
    x
}
fn drawn() -> u64 {
    unsafe {
        assert!(RAND_CNT == 1);
        RAND_LOG
    }
}

// vp: props=C14; tag=C14.streamtype.encode; kind=complete; tier=quick
// a stream type goes out as the shortest varint of its value; decode reads it back
#[kani::proof]
#[kani::unwind(10)]
fn c14_streamtype_encode_is_varint() {
    let t: u64 = kani::any();
    kani::assume(t < TWO62);
    let ty = StreamType::from_value(t);
    assert!(ty.value() == t);
    let mut arr = [0u8; 8];
    let written;
    {
        let mut w = &mut arr[..];
        ty.encode(&mut w);
        written = 8 - w.len();
    }
    let (b, n) = spec_varint_enc(t);
    assert!(written == n);
    assert!(written <= StreamType::MAX_ENCODED_SIZE);
    let mut i = 0;
    while i < 8 {
        if i < n {
            assert!(arr[i] == b[i]);
        }
        i += 1;
    }
    let mut r: &[u8] = &arr[..written];
    assert!(StreamType::decode(&mut r) == Ok(ty));
    assert!(r.is_empty());
    kani::cover!(n == 1);
    kani::cover!(n == 2);
    kani::cover!(n == 8);
}

// vp: props=C14,C19; tag=C14.streamtype.values; kind=complete; tier=quick
// the constants are the registered values
#[kani::proof]
fn c14_streamtype_constants() {
    assert!(StreamType::CONTROL.value() == SPEC_ST_CONTROL);
    assert!(StreamType::PUSH.value() == SPEC_ST_PUSH);
    assert!(StreamType::ENCODER.value() == SPEC_ST_QPACK_ENCODER);
    assert!(StreamType::DECODER.value() == SPEC_ST_QPACK_DECODER);
    assert!(StreamType::WEBTRANSPORT_UNI.value() == SPEC_WT_UNI_STREAM);
    assert!(StreamType::WEBTRANSPORT_BIDI.value() == SPEC_WT_BIDI_SIGNAL);
    assert!(StreamType::MAX_ENCODED_SIZE == 8);
    kani::cover!(true);
}

// vp: props=C14; tag=C14.grease.streamtype; kind=complete; tier=quick
// for every N fastrand can return: the grease stream type is exactly 0x1f*N+0x21 (no overflow), fits a
// varint, and is none of the types that have a meaning
#[kani::proof]
#[kani::stub(fastrand::u64, stub_fastrand_u64)]
fn c14_streamtype_grease_form() {
    let g = StreamType::grease().value();
    assert!(g as u128 == spec_grease_nth(drawn()));
    assert!(g < TWO62);
    assert!(g != SPEC_ST_CONTROL && g != SPEC_ST_PUSH && g != SPEC_ST_QPACK_ENCODER && g != SPEC_ST_QPACK_DECODER);
    assert!(g != SPEC_WT_UNI_STREAM && g != SPEC_WT_BIDI_SIGNAL);
    kani::cover!(g == 0x21);
    kani::cover!(g == TWO62 - 33);
}
