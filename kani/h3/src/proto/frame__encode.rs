// Kani harnesses attached (as a child module) to h3/src/proto/frame.rs — C14 (frame headers h3 writes), C19.
//
// Functions under check (real code): `FrameType::{encode, grease}`, `SettingId::grease`,
// `simple_frame_encode`, `impl Encode for Frame<B>` (every variant an API call can construct),
// `FrameHeader::{len, encode_header}` for `PushPromise`, `Frame::payload`.
// (`Settings::{len, encode}` with entries: kani/h3/src/proto/frame__settings.rs, other builder.)
// Spec: RFC 9114 §7.1 (Type (i), Length (i), payload), §7.2.x type values and payload layouts,
// §7.2.8 (reserved types 0x1f*N+0x21; HTTP/2 types 0x2 0x6 0x8 0x9 MUST NOT be sent) — kani/_spec.rs.
//
// `fastrand::u64` is replaced, in every harness that can reach `Frame::encode`, by a stub returning an
// arbitrary value *of the requested range* (so the grease claims hold for every value the generator can
// return); the generic signature must be repeated or Kani does not accept the stub.
use super::*;
#[path = "/verif/kani/_spec.rs"]
mod spec;
use spec::*;
use std::convert::TryFrom;

static mut RAND_LOG: u64 = 0;
static mut RAND_CNT: usize = 0;
/// any value of the requested range; logs it so that the result can be compared with 0x1f * N + 0x21 for
/// the very N that was drawn (cheaper for the SAT solver than `% 0x1f` on a product)
fn stub_fastrand_u64<R: std::ops::RangeBounds<u64>>(r: R) -> u64 {
    let x: u64 = kani::any();
    kani::assume(r.contains(&x));
    unsafe {
        RAND_LOG = x;
        RAND_CNT += 1;
    }
    x
}
fn drawn() -> u64 {
    unsafe {
        assert!(RAND_CNT == 1);
        RAND_LOG
    }
}

static MOCK_BYTES: [u8; 4] = [0xa5; 4];

/// content-free payload: symbolic length, symbolic first-chunk length (chunk().len() <= remaining())
struct MockPayload {
    rem: usize,
    cap: usize,
    advanced: usize,
}
impl Buf for MockPayload {
    fn remaining(&self) -> usize {
        self.rem
    }
    fn chunk(&self) -> &[u8] {
        let n = if self.rem < self.cap { self.rem } else { self.cap };
        &MOCK_BYTES[..n]
    }
    fn advance(&mut self, cnt: usize) {
        assert!(cnt <= self.rem, "payload advanced past its end");
        self.rem -= cnt;
        self.advanced += cnt;
    }
}
fn any_payload() -> MockPayload {
    let rem: usize = kani::any();
    let cap: usize = kani::any();
    // a frame length is a varint: a payload of 2^62 bytes or more cannot be framed at all
    kani::assume((rem as u64) < TWO62);
    kani::assume(1 <= cap && cap <= 4);
    MockPayload { rem, cap, advanced: 0 }
}

/// A real `Bytes` of symbolic length 0..=BIG_LEN over a static array (all three short varint forms of
/// the length field are reached; an 8-byte length would need a field section of >= 1 GiB).
const BIG_LEN: usize = 16400;
static BIG: [u8; BIG_LEN] = [0x5a; BIG_LEN];
fn bytes_of_len(n: usize) -> Bytes {
    Bytes::from_static(&BIG[..n])
}

const OUT: usize = 32;
fn encode_to<E: Encode>(x: &E, arr: &mut [u8; OUT]) -> usize {
    let mut w = &mut arr[..];
    x.encode(&mut w);
    OUT - w.len()
}
fn assert_wire_eq(arr: &[u8; OUT], written: usize, want: &SpecBytes) {
    assert!(written == want.n);
    let mut i = 0;
    while i < 24 {
        if i < want.n {
            assert!(arr[i] == want.b[i]);
        }
        i += 1;
    }
}
fn wire_type(arr: &[u8; OUT], written: usize) -> u64 {
    spec_varint_dec(&arr[..written]).unwrap().0
}
/// [C14.frame.no-h2-types] the type on the wire is an RFC 9114 type this endpoint may send, the WebTransport
/// signal, or a reserved (grease) type — exactly one of these — and never 0x2 0x6 0x8 0x9.
fn assert_type_legal(arr: &[u8; OUT], written: usize, grease_expected: bool) {
    assert!(written >= 2);
    let t = wire_type(arr, written);
    assert!(!spec_is_h2_reserved_frame_type(t));
    let defined = t == SPEC_FT_DATA
        || t == SPEC_FT_HEADERS
        || t == SPEC_FT_CANCEL_PUSH
        || t == SPEC_FT_SETTINGS
        || t == SPEC_FT_GOAWAY
        || t == SPEC_FT_MAX_PUSH_ID
        || t == SPEC_WT_BIDI_SIGNAL;
    assert!(defined != spec_is_grease(t));
    assert!(spec_is_grease(t) == grease_expected);
}

// vp: props=C14; tag=C14.frametype.encode; kind=complete; tier=quick
// a frame type goes out as the shortest varint of its value
#[kani::proof]
#[kani::unwind(25)]
fn c14_frametype_encode_is_varint() {
    let t: u64 = kani::any();
    kani::assume(t < TWO62);
    let mut arr = [0u8; OUT];
    let written;
    {
        let mut w = &mut arr[..];
        FrameType(t).encode(&mut w);
        written = OUT - w.len();
    }
    assert_wire_eq(&arr, written, &spec_bytes_varint(spec_bytes_new(), t));
    kani::cover!(written == 8);
    kani::cover!(written == 1);
}

// vp: props=C14; tag=C14.frametype.values; kind=complete; tier=quick
// the type constants are the RFC 9114 §11.2.1 values (and the HTTP/2 ones are named as such)
#[kani::proof]
fn c14_frametype_constants() {
    assert!(FrameType::DATA.0 == SPEC_FT_DATA);
    assert!(FrameType::HEADERS.0 == SPEC_FT_HEADERS);
    assert!(FrameType::CANCEL_PUSH.0 == SPEC_FT_CANCEL_PUSH);
    assert!(FrameType::SETTINGS.0 == SPEC_FT_SETTINGS);
    assert!(FrameType::PUSH_PROMISE.0 == SPEC_FT_PUSH_PROMISE);
    assert!(FrameType::GOAWAY.0 == SPEC_FT_GOAWAY);
    assert!(FrameType::MAX_PUSH_ID.0 == SPEC_FT_MAX_PUSH_ID);
    assert!(FrameType::WEBTRANSPORT_BI_STREAM.0 == SPEC_WT_BIDI_SIGNAL);
    assert!(spec_is_h2_reserved_frame_type(FrameType::H2_PRIORITY.0));
    assert!(spec_is_h2_reserved_frame_type(FrameType::H2_PING.0));
    assert!(spec_is_h2_reserved_frame_type(FrameType::H2_WINDOW_UPDATE.0));
    assert!(spec_is_h2_reserved_frame_type(FrameType::H2_CONTINUATION.0));
    assert!(<Settings as FrameHeader>::TYPE == FrameType::SETTINGS);
    assert!(<PushPromise as FrameHeader>::TYPE == FrameType::PUSH_PROMISE);
    kani::cover!(true);
}

// vp: props=C14; tag=C14.grease.spec; kind=complete; tier=thorough
// the two renderings of "reserved identifier" agree: x is of the form 0x1f*N+0x21 (spec_is_grease, by
// remainder) <=> x == spec_grease_nth(N) for N = (x - 0x21) / 0x1f
#[kani::proof]
fn c14_spec_grease_forms_agree() {
    let n: u64 = kani::any();
    let g = spec_grease_nth(n);
    if g <= u64::MAX as u128 {
        assert!(spec_is_grease(g as u64));
    }
    let x: u64 = kani::any();
    if spec_is_grease(x) {
        assert!(spec_grease_nth((x - 0x21) / 0x1f) == x as u128);
    } else if x >= 0x21 {
        assert!(spec_grease_nth((x - 0x21) / 0x1f) != x as u128);
    }
    kani::cover!(n == 0 && x == 0x21);
    kani::cover!(spec_is_grease(x) && x > TWO62);
    kani::cover!(!spec_is_grease(x) && x > 0x21);
}

// vp: props=C14; tag=C14.grease.frametype; kind=complete; tier=quick
// for every N fastrand can return: the grease frame type is exactly 0x1f*N+0x21 (no overflow in the
// computation — Kani's arithmetic checks are on), fits a varint, and is neither a defined nor an
// HTTP/2-reserved type
#[kani::proof]
#[kani::stub(fastrand::u64, stub_fastrand_u64)]
fn c14_frametype_grease_form() {
    let g = FrameType::grease().0;
    assert!(g as u128 == spec_grease_nth(drawn()));
    assert!(g < TWO62);
    assert!(!spec_is_h2_reserved_frame_type(g));
    assert!(g != SPEC_FT_DATA && g != SPEC_FT_HEADERS && g != SPEC_FT_CANCEL_PUSH && g != SPEC_FT_SETTINGS);
    assert!(g != SPEC_FT_PUSH_PROMISE && g != SPEC_FT_GOAWAY && g != SPEC_FT_MAX_PUSH_ID && g != SPEC_WT_BIDI_SIGNAL);
    kani::cover!(g == 0x21);
    kani::cover!(g == TWO62 - 33); // the largest one the generator can produce
    kani::cover!(g == 0x21 + 0x1f * 1337);
}

// vp: props=C14; tag=C14.grease.settingid; kind=complete; tier=quick
// same for the grease setting identifier; never an HTTP/2-reserved setting (0x0, 0x2..0x5), never one that
// has a meaning
#[kani::proof]
#[kani::stub(fastrand::u64, stub_fastrand_u64)]
fn c14_settingid_grease_form() {
    let g = SettingId::grease().0;
    assert!(g as u128 == spec_grease_nth(drawn()));
    assert!(g < TWO62);
    assert!(!SettingId(g).is_forbidden());
    assert!(g != 0x00 && g != 0x02 && g != 0x03 && g != 0x04 && g != 0x05);
    assert!(!SettingId(g).is_supported());
    kani::cover!(g == 0x21);
    kani::cover!(g == TWO62 - 33);
}

// vp: props=C14; tag=C14.frame.simple; kind=complete; tier=quick
// simple_frame_encode(ty, id) == varint(ty) ++ varint(|varint(id)|) ++ varint(id): the length field
// equals the number of bytes that follow, for every type and id
#[kani::proof]
#[kani::unwind(25)]
fn c14_simple_frame_encode_layout() {
    let t: u64 = kani::any();
    let id: u64 = kani::any();
    kani::assume(t < TWO62 && id < TWO62);
    let mut arr = [0u8; OUT];
    let written;
    {
        let mut w = &mut arr[..];
        simple_frame_encode(FrameType(t), VarInt(id), &mut w);
        written = OUT - w.len();
    }
    let want = spec_frame_single_varint(t, id);
    assert_wire_eq(&arr, written, &want);
    // length field == bytes that follow it
    let tl = spec_varint_len(t);
    assert!(arr[tl] as usize == written - tl - 1);
    kani::cover!(written == 8 + 1 + 8);
    kani::cover!(written == 3);
}

// vp: props=C14,C01; tag=C14.frame.data; kind=complete; tier=quick
// DATA: type 0x0, length == payload.remaining() (not the first chunk's length), for every payload length
#[kani::proof]
#[kani::unwind(25)]
#[kani::stub(fastrand::u64, stub_fastrand_u64)]
fn c14_frame_encode_data_header() {
    let p = any_payload();
    let rem0 = p.rem;
    let f = Frame::Data(p);
    let mut arr = [0u8; OUT];
    let written = encode_to(&f, &mut arr);
    assert_wire_eq(&arr, written, &spec_frame_hdr(SPEC_FT_DATA, rem0 as u64));
    assert_type_legal(&arr, written, false);
    // encoding the header does not consume the payload, and the payload is what payload() exposes
    match f.payload() {
        Some(b) => {
            assert!(b.remaining() == rem0);
        }
        None => panic!("DATA frame without payload"),
    }
    kani::cover!(rem0 == 0);
    kani::cover!(rem0 > 4 && written == 3); // longer than any single chunk of the mock
    kani::cover!(written == 9);
}

// vp: props=C14; tag=C14.frame.headers; kind=bounded; bound=field section <= 16400 bytes (1-, 2- and 4-byte length forms); tier=quick
// HEADERS: type 0x1, length == the encoded field section's length.  The payload is a real `Bytes`, so its
// length is bounded by the static array behind it; the code passes `len()` to `write_var`, which C16.encode
// proves for all values < 2^62.
#[kani::proof]
#[kani::unwind(25)]
#[kani::stub(fastrand::u64, stub_fastrand_u64)]
fn c14_frame_encode_headers_header() {
    let n: usize = kani::any();
    kani::assume(n <= BIG_LEN);
    let f: Frame<MockPayload> = Frame::Headers(bytes_of_len(n));
    let mut arr = [0u8; OUT];
    let written = encode_to(&f, &mut arr);
    assert_wire_eq(&arr, written, &spec_frame_hdr(SPEC_FT_HEADERS, n as u64));
    assert_type_legal(&arr, written, false);
    match f.payload() {
        Some(b) => {
            assert!(b.remaining() == n);
        }
        None => panic!("HEADERS frame without payload"),
    }
    std::mem::forget(f);
    kani::cover!(n == 0);
    kani::cover!(written == 3);
    kani::cover!(written == 5);
}

// vp: props=C14; tag=C14.frame.single-varint; kind=complete; tier=quick
// GOAWAY / CANCEL_PUSH / MAX_PUSH_ID: RFC type, length == size of the one varint that follows, then the id.
// (The variant is concrete in each block: a symbolic discriminant makes CBMC explore the drop/clone glue
// of the `Bytes`-holding variants through function pointers and does not finish.)
#[kani::proof]
#[kani::unwind(25)]
#[kani::stub(fastrand::u64, stub_fastrand_u64)]
fn c14_frame_encode_goaway_cancelpush_maxpushid() {
    let id: u64 = kani::any();
    kani::assume(id < TWO62);
    let mut total = 0;
    {
        let f: Frame<MockPayload> = Frame::Goaway(VarInt(id));
        let mut arr = [0u8; OUT];
        let written = encode_to(&f, &mut arr);
        assert_wire_eq(&arr, written, &spec_frame_single_varint(SPEC_FT_GOAWAY, id));
        assert_type_legal(&arr, written, false);
        assert!(f.payload().is_none());
        total += written;
    }
    {
        let f: Frame<MockPayload> = Frame::CancelPush(PushId::try_from(id).unwrap());
        let mut arr = [0u8; OUT];
        let written = encode_to(&f, &mut arr);
        assert_wire_eq(&arr, written, &spec_frame_single_varint(SPEC_FT_CANCEL_PUSH, id));
        assert_type_legal(&arr, written, false);
        assert!(f.payload().is_none());
        total += written;
    }
    {
        let f: Frame<MockPayload> = Frame::MaxPushId(PushId::try_from(id).unwrap());
        let mut arr = [0u8; OUT];
        let written = encode_to(&f, &mut arr);
        assert_wire_eq(&arr, written, &spec_frame_single_varint(SPEC_FT_MAX_PUSH_ID, id));
        assert_type_legal(&arr, written, false);
        assert!(f.payload().is_none());
        total += written;
    }
    kani::cover!(total == 30);
    kani::cover!(total == 9);
    kani::cover!(total == 18);
}

// vp: props=C14; tag=C14.frame.grease; kind=complete; tier=quick
// the grease frame: the reserved type 0x1f*N+0x21 for the N drawn, length 6, six bytes of payload — a
// complete, skippable frame
#[kani::proof]
#[kani::unwind(25)]
#[kani::stub(fastrand::u64, stub_fastrand_u64)]
fn c14_frame_encode_grease() {
    let f: Frame<MockPayload> = Frame::Grease;
    let mut arr = [0u8; OUT];
    let written = encode_to(&f, &mut arr);
    let g = spec_grease_nth(drawn());
    assert!(g < TWO62 as u128);
    let g = g as u64;
    assert!(!spec_is_h2_reserved_frame_type(g) && g >= 0x21 && g != SPEC_WT_BIDI_SIGNAL);
    let want = spec_bytes_lit(spec_frame_hdr(g, 6), b"grease");
    assert_wire_eq(&arr, written, &want);
    assert!(written <= 8 + 1 + 6);
    assert!(f.payload().is_none());
    kani::cover!(written == 8);
    kani::cover!(written == 15);
}

// vp: props=C19,C14; tag=C19.frame.wt-bidi; kind=complete; tier=quick
// the WebTransport bidi signal: varint(0x41) then the session id, no length field
#[kani::proof]
#[kani::unwind(25)]
#[kani::stub(fastrand::u64, stub_fastrand_u64)]
fn c19_frame_encode_webtransport_stream() {
    let id: u64 = kani::any();
    kani::assume(id < TWO62);
    let f: Frame<MockPayload> = Frame::WebTransportStream(SessionId::try_from(id).unwrap());
    let mut arr = [0u8; OUT];
    let written = encode_to(&f, &mut arr);
    let want = spec_bytes_varint(spec_bytes_varint(spec_bytes_new(), SPEC_WT_BIDI_SIGNAL), id);
    assert_wire_eq(&arr, written, &want);
    assert_type_legal(&arr, written, false);
    assert!(arr[0] == 0x40 && arr[1] == 0x41);
    assert!(f.payload().is_none());
    kani::cover!(written == 3);
    kani::cover!(written == 10);
}

// vp: props=C14; tag=C14.frame.settings-empty; kind=complete; tier=quick
// an empty SETTINGS frame is 04 00 (entries: frame__settings.rs)
#[kani::proof]
#[kani::unwind(25)]
#[kani::stub(fastrand::u64, stub_fastrand_u64)]
fn c14_frame_encode_settings_empty() {
    let f: Frame<MockPayload> = Frame::Settings(Settings::default());
    let mut arr = [0u8; OUT];
    let written = encode_to(&f, &mut arr);
    assert_wire_eq(&arr, written, &spec_frame_hdr(SPEC_FT_SETTINGS, 0));
    assert_type_legal(&arr, written, false);
    assert!(f.payload().is_none());
    kani::cover!(written == 2);
}

// vp: props=C14; tag=C14.frameheader.pushpromise; kind=bounded; bound=field section <= 16400 bytes; tier=quick
// FrameHeader for PushPromise: len() == |varint(id)| + |field section|, header == varint(0x5) ++
// varint(len) ++ varint(id).  (No API sends PUSH_PROMISE; checked because the helper is shared.)
#[kani::proof]
#[kani::unwind(25)]
fn c14_frameheader_pushpromise() {
    let id: u64 = kani::any();
    kani::assume(id < TWO62);
    let n: usize = kani::any();
    kani::assume(n <= BIG_LEN);
    let pp = PushPromise { id, encoded: bytes_of_len(n) };
    assert!(pp.len() == spec_varint_len(id) + n);
    let mut arr = [0u8; OUT];
    let written;
    {
        let mut w = &mut arr[..];
        pp.encode_header(&mut w);
        written = OUT - w.len();
    }
    let want = spec_bytes_varint(spec_frame_hdr(SPEC_FT_PUSH_PROMISE, (spec_varint_len(id) + n) as u64), id);
    assert_wire_eq(&arr, written, &want);
    std::mem::forget(pp);
    kani::cover!(written == 3);
    kani::cover!(written == 1 + 4 + 8);
}
