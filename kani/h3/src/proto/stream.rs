// Kani harnesses attached to h3/src/proto/stream.rs — C16 (stream-ID algebra), C08 (Add<usize>).
use super::*;
#[path = "/verif/kani/_spec.rs"]
mod spec;
use spec::*;
use std::convert::TryFrom;

// vp: props=C16; tag=C16.streamid.fields; kind=complete; tier=quick
#[kani::proof]
fn c16_streamid_fields() {
    let v: u64 = kani::any();
    match StreamId::try_from(v) {
        Err(_) => assert!(v >= TWO62),
        Ok(id) => {
            assert!(v < TWO62);
            assert!(id.into_inner() == v);
            assert!((id.initiator() == Side::Client) == spec_sid_client_initiated(v));
            assert!((id.dir() == Dir::Bi) == spec_sid_bidi(v));
            assert!(id.index() == spec_sid_index(v));
            assert!(id.is_request() == (spec_sid_client_initiated(v) && spec_sid_bidi(v)));
            assert!(id.is_push() == (!spec_sid_client_initiated(v) && !spec_sid_bidi(v)));
            let again = StreamId::new(id.index(), id.dir(), id.initiator());
            assert!(again == id);
        }
    }
    assert!(StreamId::FIRST_REQUEST.into_inner() == 0);
    kani::cover!(v == TWO62 - 1);
    kani::cover!(v % 4 == 3 && v < TWO62);
}

// vp: props=C16,C08,C06,C14; tag=C16.streamid.add; kind=complete; tier=quick
// advancing by n requests saturates at the largest valid id of the same kind; no overflow for any usize
#[kani::proof]
fn c16_streamid_add_saturates() {
    let v: u64 = kani::any();
    kani::assume(v < TWO62);
    let n: usize = kani::any();
    let id = StreamId::try_from(v).unwrap();
    let r = id + n;
    let want_index: u128 = {
        let s = (v / 4) as u128 + n as u128;
        let max = (TWO62 / 4 - 1) as u128;
        if s > max { max } else { s }
    };
    assert!(r.into_inner() < TWO62);
    assert!(r.index() as u128 == want_index);
    assert!(r.into_inner() % 4 == v % 4);
    assert!(r.initiator() == id.initiator());
    assert!(r.dir() == id.dir());
    kani::cover!(n == usize::MAX);
    kani::cover!(r.index() == TWO62 / 4 - 1 && n == 1);
}
