//! Executable rendering of the spec library (DESIGN §3.1), written from the RFC text and
//! deliberately not in the shape of the code under test.  Used by Kani harnesses and replay tests.
#![allow(dead_code)]

/// RFC 9000 §16: the shortest of the four forms; big-endian by repeated division.
pub fn spec_varint_len(x: u64) -> usize {
    if x <= 63 { 1 } else if x <= 16383 { 2 } else if x <= 1073741823 { 4 } else { 8 }
}
pub fn spec_varint_enc(x: u64) -> ([u8; 8], usize) {
    let n = spec_varint_len(x);
    let mut out = [0u8; 8];
    let mut v = x;
    let mut i = n;
    while i > 0 {
        i -= 1;
        out[i] = (v % 256) as u8;
        v /= 256;
    }
    let prefix: u8 = match n { 1 => 0x00, 2 => 0x40, 4 => 0x80, _ => 0xc0 };
    out[0] += prefix; // the two most significant bits carry log2 of the length
    (out, n)
}
/// Some((value, length)) when `s` starts with a complete encoding (minimal or not), None when truncated.
pub fn spec_varint_dec(s: &[u8]) -> Option<(u64, usize)> {
    if s.is_empty() {
        return None;
    }
    let n: usize = match s[0] / 64 { 0 => 1, 1 => 2, 2 => 4, _ => 8 };
    if s.len() < n {
        return None;
    }
    let mut v: u64 = (s[0] % 64) as u64;
    let mut i = 1;
    while i < n {
        v = v * 256 + s[i] as u64;
        i += 1;
    }
    Some((v, n))
}
pub const TWO62: u64 = 4611686018427387904;

/// RFC 9000 §2.1
pub fn spec_sid_client_initiated(id: u64) -> bool { id % 2 == 0 }
pub fn spec_sid_bidi(id: u64) -> bool { (id / 2) % 2 == 0 }
pub fn spec_sid_index(id: u64) -> u64 { id / 4 }

// ---- (kaniA) C14 / C18 / C19: wire images of what h3 writes -------------------------------------
/// A small byte string under construction (the spec side of `WriteBuf` / `EncodedDatagram` headers).
#[derive(Clone, Copy)]
pub struct SpecBytes { pub b: [u8; 80], pub n: usize }
pub fn spec_bytes_new() -> SpecBytes { SpecBytes { b: [0u8; 80], n: 0 } }
pub fn spec_bytes_varint(mut s: SpecBytes, x: u64) -> SpecBytes {
    let (e, n) = spec_varint_enc(x);
    let mut i = 0;
    while i < n { s.b[s.n] = e[i]; s.n += 1; i += 1; }
    s
}
pub fn spec_bytes_lit(mut s: SpecBytes, lit: &[u8]) -> SpecBytes {
    let mut i = 0;
    while i < lit.len() { s.b[s.n] = lit[i]; s.n += 1; i += 1; }
    s
}
/// RFC 9114 §7.1: Type (i), Length (i) — the payload follows.
pub fn spec_frame_hdr(ty: u64, len: u64) -> SpecBytes {
    spec_bytes_varint(spec_bytes_varint(spec_bytes_new(), ty), len)
}
/// RFC 9114 §7.2.x frames whose whole payload is one varint (CANCEL_PUSH, GOAWAY, MAX_PUSH_ID).
pub fn spec_frame_single_varint(ty: u64, id: u64) -> SpecBytes {
    spec_bytes_varint(spec_frame_hdr(ty, spec_varint_len(id) as u64), id)
}
/// RFC 9114 §11.2.1 frame types
pub const SPEC_FT_DATA: u64 = 0x00;
pub const SPEC_FT_HEADERS: u64 = 0x01;
pub const SPEC_FT_CANCEL_PUSH: u64 = 0x03;
pub const SPEC_FT_SETTINGS: u64 = 0x04;
pub const SPEC_FT_PUSH_PROMISE: u64 = 0x05;
pub const SPEC_FT_GOAWAY: u64 = 0x07;
pub const SPEC_FT_MAX_PUSH_ID: u64 = 0x0d;
/// RFC 9114 §11.2.4 stream types; draft-ietf-webtrans-http3 §4.1/§4.2 signal values
pub const SPEC_ST_CONTROL: u64 = 0x00;
pub const SPEC_ST_PUSH: u64 = 0x01;
pub const SPEC_ST_QPACK_ENCODER: u64 = 0x02;
pub const SPEC_ST_QPACK_DECODER: u64 = 0x03;
pub const SPEC_WT_UNI_STREAM: u64 = 0x54;
pub const SPEC_WT_BIDI_SIGNAL: u64 = 0x41;
/// RFC 9114 §7.2.8: frame types reserved because HTTP/2 used them; MUST NOT be sent.
pub fn spec_is_h2_reserved_frame_type(t: u64) -> bool { t == 0x02 || t == 0x06 || t == 0x08 || t == 0x09 }
/// RFC 9114 §7.2.8 / §6.2.3 / §7.2.4.1: reserved ("grease") identifiers are 0x1f * N + 0x21, N >= 0.
pub fn spec_is_grease(x: u64) -> bool { x >= 0x21 && (x - 0x21) % 0x1f == 0 }
/// RFC 9297 §2.1: Quarter Stream ID (i) then the payload.  Header of the datagram of stream `s`.
pub fn spec_datagram_hdr(s: u64) -> ([u8; 8], usize) { spec_varint_enc(s / 4) }
/// Some((stream id, offset of the payload)) when `d` is an acceptable HTTP datagram; None when the
/// quarter stream id is truncated or exceeds 2^60-1 (stream id would exceed 2^62-1).
pub fn spec_datagram_dec(d: &[u8]) -> Option<(u64, usize)> {
    match spec_varint_dec(d) {
        None => None,
        Some((q, n)) => if q > TWO62 / 4 - 1 { None } else { Some((q + q + q + q, n)) },
    }
}
pub const SPEC_H3_DATAGRAM_ERROR: u64 = 0x33;

// ---------------------------------------------------------------------------------------------
// SETTINGS (RFC 9114 §7.2.4) — added by kaniB for C13
/// RFC 9114 §7.2.4.1 / §11.2.2: HTTP/2 settings with no HTTP/3 counterpart are reserved.
pub fn spec_is_h2_reserved_setting(id: u64) -> bool {
    id == 0x00 || id == 0x02 || id == 0x03 || id == 0x04 || id == 0x05
}
// (spec_is_grease: defined above)
pub const SPEC_SETTINGS_MAX_PAIRS: usize = 16;
#[derive(Clone, Copy)]
pub struct SpecSettings {
    /// (identifier, value) in wire order
    pub pairs: [(u64, u64); SPEC_SETTINGS_MAX_PAIRS],
    pub n: usize,
    /// every varint of the payload used its shortest form
    pub minimal: bool,
}
/// Payload of a SETTINGS frame: Some(..) iff `s` is a whole number of (varint, varint) pairs
/// (executable rendering holds at most SPEC_SETTINGS_MAX_PAIRS pairs; more => None, callers bound the input).
pub fn spec_settings_payload_dec(s: &[u8]) -> Option<SpecSettings> {
    let mut out = SpecSettings { pairs: [(0, 0); SPEC_SETTINGS_MAX_PAIRS], n: 0, minimal: true };
    let mut at = 0usize;
    while at < s.len() {
        if out.n == SPEC_SETTINGS_MAX_PAIRS {
            return None;
        }
        let (id, n1) = match spec_varint_dec(&s[at..]) { Some(x) => x, None => return None };
        at += n1;
        let (val, n2) = match spec_varint_dec(&s[at..]) { Some(x) => x, None => return None };
        at += n2;
        if n1 != spec_varint_len(id) || n2 != spec_varint_len(val) {
            out.minimal = false;
        }
        out.pairs[out.n] = (id, val);
        out.n += 1;
    }
    Some(out)
}
/// A whole SETTINGS frame at the start of `s`: type 0x04, Length, payload of exactly Length bytes.
/// Returns the parsed payload, the total number of bytes of the frame, and whether type and length
/// were themselves in shortest form.
pub fn spec_settings_frame_dec(s: &[u8]) -> Option<(SpecSettings, usize, bool)> {
    let (ty, n0) = match spec_varint_dec(s) { Some(x) => x, None => return None };
    if ty != 0x04 {
        return None;
    }
    let (len, n1) = match spec_varint_dec(&s[n0..]) { Some(x) => x, None => return None };
    let hdr = n0 + n1;
    if ((s.len() - hdr) as u64) < len {
        return None;
    }
    let total = hdr + len as usize;
    let hdr_minimal = n0 == 1 && n1 == spec_varint_len(len);
    match spec_settings_payload_dec(&s[hdr..total]) {
        Some(p) => Some((p, total, hdr_minimal)),
        None => None,
    }
}
/// What a receiver must do with a SETTINGS payload (RFC 9114 §7.2.4, §7.2.4.1), reading pairs in wire
/// order; `known(id)` = the receiver understands identifier `id`.  The first offending pair decides:
/// Malformed (payload ends inside a pair) | Reserved(id) (HTTP/2-reserved identifier) |
/// Repeated(id) (an understood identifier for the second time) | Ok (end of payload reached).
/// Identifiers the receiver does not understand are ignored, however often they occur.
#[derive(Clone, Copy, PartialEq, Eq, Debug)]
pub enum SpecSettingsVerdict { Ok, Malformed, Reserved(u64), Repeated(u64) }
pub fn spec_settings_verdict<K: Fn(u64) -> bool>(s: &[u8], known: K) -> (SpecSettingsVerdict, SpecSettings) {
    // `applied` = the understood (id, value) pairs accepted so far, in wire order
    let mut applied = SpecSettings { pairs: [(0, 0); SPEC_SETTINGS_MAX_PAIRS], n: 0, minimal: true };
    let mut at = 0usize;
    while at < s.len() {
        let (id, n1) = match spec_varint_dec(&s[at..]) { Some(x) => x, None => return (SpecSettingsVerdict::Malformed, applied) };
        at += n1;
        let (val, n2) = match spec_varint_dec(&s[at..]) { Some(x) => x, None => return (SpecSettingsVerdict::Malformed, applied) };
        at += n2;
        if spec_is_h2_reserved_setting(id) {
            return (SpecSettingsVerdict::Reserved(id), applied);
        }
        if known(id) {
            let mut j = 0;
            while j < applied.n {
                if applied.pairs[j].0 == id { return (SpecSettingsVerdict::Repeated(id), applied); }
                j += 1;
            }
            if applied.n == SPEC_SETTINGS_MAX_PAIRS { return (SpecSettingsVerdict::Malformed, applied); } // not reachable: known ids are distinct and fewer
            applied.pairs[applied.n] = (id, val);
            applied.n += 1;
        }
    }
    (SpecSettingsVerdict::Ok, applied)
}
/// identifiers (RFC 9114 §7.2.4.1, RFC 9204 §5, RFC 9220 §5, RFC 9297 §2.1.1, draft-ietf-webtrans-http3 §8.2)
pub const SPEC_SETTINGS_QPACK_MAX_TABLE_CAPACITY: u64 = 0x01;
pub const SPEC_SETTINGS_MAX_FIELD_SECTION_SIZE: u64 = 0x06;
pub const SPEC_SETTINGS_QPACK_BLOCKED_STREAMS: u64 = 0x07;
pub const SPEC_SETTINGS_ENABLE_CONNECT_PROTOCOL: u64 = 0x08;
pub const SPEC_SETTINGS_H3_DATAGRAM: u64 = 0x33;
pub const SPEC_SETTINGS_ENABLE_WEBTRANSPORT: u64 = 0x2b603742;
pub const SPEC_SETTINGS_WEBTRANSPORT_MAX_SESSIONS: u64 = 0x2b603743;

/// RFC 9204 Appendix A, transcribed independently (design_probes/rfc9204_static_table.txt): (name, value), index = position.
pub const SPEC_STATIC_TABLE: [(&[u8], &[u8]); 99] = [
    (b":authority", b""), // 0
    (b":path", b"/"), // 1
    (b"age", b"0"), // 2
    (b"content-disposition", b""), // 3
    (b"content-length", b"0"), // 4
    (b"cookie", b""), // 5
    (b"date", b""), // 6
    (b"etag", b""), // 7
    (b"if-modified-since", b""), // 8
    (b"if-none-match", b""), // 9
    (b"last-modified", b""), // 10
    (b"link", b""), // 11
    (b"location", b""), // 12
    (b"referer", b""), // 13
    (b"set-cookie", b""), // 14
    (b":method", b"CONNECT"), // 15
    (b":method", b"DELETE"), // 16
    (b":method", b"GET"), // 17
    (b":method", b"HEAD"), // 18
    (b":method", b"OPTIONS"), // 19
    (b":method", b"POST"), // 20
    (b":method", b"PUT"), // 21
    (b":scheme", b"http"), // 22
    (b":scheme", b"https"), // 23
    (b":status", b"103"), // 24
    (b":status", b"200"), // 25
    (b":status", b"304"), // 26
    (b":status", b"404"), // 27
    (b":status", b"503"), // 28
    (b"accept", b"*/*"), // 29
    (b"accept", b"application/dns-message"), // 30
    (b"accept-encoding", b"gzip, deflate, br"), // 31
    (b"accept-ranges", b"bytes"), // 32
    (b"access-control-allow-headers", b"cache-control"), // 33
    (b"access-control-allow-headers", b"content-type"), // 34
    (b"access-control-allow-origin", b"*"), // 35
    (b"cache-control", b"max-age=0"), // 36
    (b"cache-control", b"max-age=2592000"), // 37
    (b"cache-control", b"max-age=604800"), // 38
    (b"cache-control", b"no-cache"), // 39
    (b"cache-control", b"no-store"), // 40
    (b"cache-control", b"public, max-age=31536000"), // 41
    (b"content-encoding", b"br"), // 42
    (b"content-encoding", b"gzip"), // 43
    (b"content-type", b"application/dns-message"), // 44
    (b"content-type", b"application/javascript"), // 45
    (b"content-type", b"application/json"), // 46
    (b"content-type", b"application/x-www-form-urlencoded"), // 47
    (b"content-type", b"image/gif"), // 48
    (b"content-type", b"image/jpeg"), // 49
    (b"content-type", b"image/png"), // 50
    (b"content-type", b"text/css"), // 51
    (b"content-type", b"text/html; charset=utf-8"), // 52
    (b"content-type", b"text/plain"), // 53
    (b"content-type", b"text/plain;charset=utf-8"), // 54
    (b"range", b"bytes=0-"), // 55
    (b"strict-transport-security", b"max-age=31536000"), // 56
    (b"strict-transport-security", b"max-age=31536000; includesubdomains"), // 57
    (b"strict-transport-security", b"max-age=31536000; includesubdomains; preload"), // 58
    (b"vary", b"accept-encoding"), // 59
    (b"vary", b"origin"), // 60
    (b"x-content-type-options", b"nosniff"), // 61
    (b"x-xss-protection", b"1; mode=block"), // 62
    (b":status", b"100"), // 63
    (b":status", b"204"), // 64
    (b":status", b"206"), // 65
    (b":status", b"302"), // 66
    (b":status", b"400"), // 67
    (b":status", b"403"), // 68
    (b":status", b"421"), // 69
    (b":status", b"425"), // 70
    (b":status", b"500"), // 71
    (b"accept-language", b""), // 72
    (b"access-control-allow-credentials", b"FALSE"), // 73
    (b"access-control-allow-credentials", b"TRUE"), // 74
    (b"access-control-allow-headers", b"*"), // 75
    (b"access-control-allow-methods", b"get"), // 76
    (b"access-control-allow-methods", b"get, post, options"), // 77
    (b"access-control-allow-methods", b"options"), // 78
    (b"access-control-expose-headers", b"content-length"), // 79
    (b"access-control-request-headers", b"content-type"), // 80
    (b"access-control-request-method", b"get"), // 81
    (b"access-control-request-method", b"post"), // 82
    (b"alt-svc", b"clear"), // 83
    (b"authorization", b""), // 84
    (b"content-security-policy", b"script-src 'none'; object-src 'none'; base-uri 'none'"), // 85
    (b"early-data", b"1"), // 86
    (b"expect-ct", b""), // 87
    (b"forwarded", b""), // 88
    (b"if-range", b""), // 89
    (b"origin", b""), // 90
    (b"purpose", b"prefetch"), // 91
    (b"server", b""), // 92
    (b"timing-allow-origin", b"*"), // 93
    (b"upgrade-insecure-requests", b"1"), // 94
    (b"user-agent", b""), // 95
    (b"x-forwarded-for", b""), // 96
    (b"x-frame-options", b"deny"), // 97
    (b"x-frame-options", b"sameorigin"), // 98
];

// ------------------------------------------------------------------------------------------------
// C15 (builder kaniC) — RFC 7541 §5.1 prefixed integers; RFC 7541 Appendix B Huffman code and the
// §5.2 end-of-string rule.  Names: spec_prefix_int_*, SpecPrefixInt, SPEC_HUFF_*, spec_huff_*, SpecHuff*.

/// What the first octets of `s` mean as an integer with an N-bit prefix (RFC 7541 §5.1).
#[derive(Debug, PartialEq, Eq, Clone, Copy)]
pub enum SpecPrefixInt {
    /// a complete encoding: bits above the prefix in the first octet, the exact value, octets used
    Value { flags: u8, value: u64, used: usize },
    /// `s` ends before the octet whose continuation bit is clear
    Truncated,
    /// not representable: exact value above u64::MAX, or more than SPEC_PREFIX_INT_MAX_CONT continuation
    /// octets ("encodings that exceed implementation limits -- in value or octet length -- MUST be
    /// treated as decoding errors")
    TooBig,
}
/// ceil(64 / 7): the smallest octet-length limit under which every u64 is decodable for every prefix size
/// (value - (2^N - 1) can need all 64 bits when N = 8 ... 1).
pub const SPEC_PREFIX_INT_MAX_CONT: usize = 10;

/// RFC 7541 §5.1 decoding pseudo-code, the running value kept exactly (u128), limits applied at the end.
pub fn spec_prefix_int_dec(n: u8, s: &[u8]) -> SpecPrefixInt {
    if s.is_empty() {
        return SpecPrefixInt::Truncated;
    }
    let two_n: u16 = 1u16 << n; // 2^N, N in 1..=8
    let prefix = (s[0] as u16) % two_n;
    let flags = ((s[0] as u16) / two_n) as u8;
    if prefix < two_n - 1 {
        return SpecPrefixInt::Value { flags, value: prefix as u64, used: 1 };
    }
    let mut i: u128 = (two_n - 1) as u128;
    let mut pow: u128 = 1; // 2^M
    let mut k: usize = 0; // continuation octets read
    loop {
        if k == SPEC_PREFIX_INT_MAX_CONT {
            return SpecPrefixInt::TooBig; // ten octets, all with the continuation bit
        }
        if 1 + k >= s.len() {
            return SpecPrefixInt::Truncated;
        }
        let b = s[1 + k];
        i += ((b % 128) as u128) * pow; // I = I + (B & 127) * 2^M
        pow *= 128; // M = M + 7
        k += 1;
        if b < 128 {
            break;
        }
    }
    if i > u64::MAX as u128 {
        SpecPrefixInt::TooBig
    } else {
        SpecPrefixInt::Value { flags, value: i as u64, used: 1 + k }
    }
}

/// RFC 7541 §5.1 encoding pseudo-code.  `flags` are the 8-N bits above the prefix in the first octet.
pub fn spec_prefix_int_enc(n: u8, flags: u8, value: u64) -> ([u8; 11], usize) {
    let two_n: u64 = 1u64 << n;
    let hi: u8 = ((flags as u64 * two_n) % 256) as u8;
    let mut out = [0u8; 11];
    if value < two_n - 1 {
        out[0] = hi + value as u8;
        return (out, 1);
    }
    out[0] = hi + (two_n - 1) as u8;
    let mut i = value - (two_n - 1);
    let mut k = 1;
    while i >= 128 {
        out[k] = (i % 128) as u8 + 128;
        i /= 128;
        k += 1;
    }
    out[k] = i as u8;
    (out, k + 1)
}

/// RFC 7541 Appendix B: code length in bits of symbols 0..=255 and EOS (index 256).
/// Only the lengths are transcribed; the codes are derived (canonical Huffman code: codes are handed out
/// in increasing (length, symbol) order).  `SPEC_HUFF_TABLE_OK` below checks the per-length symbol counts,
/// the Kraft equality, EOS = 30 ones and prefix-freeness at compile time.
pub const SPEC_HUFF_LEN: [u8; 257] = [
    // 0x00 - 0x1f
    13, 23, 28, 28, 28, 28, 28, 28, 28, 24, 30, 28, 28, 30, 28, 28,
    28, 28, 28, 28, 28, 28, 30, 28, 28, 28, 28, 28, 28, 28, 28, 28,
    // ' '  !   "   #   $   %   &   '   (   )   *   +   ,   -   .   /
    6, 10, 10, 12, 13, 6, 8, 11, 10, 10, 8, 11, 8, 6, 6, 6,
    // 0  1  2  3  4  5  6  7  8  9  :  ;  <   =  >   ?
    5, 5, 5, 6, 6, 6, 6, 6, 6, 6, 7, 8, 15, 6, 12, 10,
    // @  A  B  C  D  E  F  G  H  I  J  K  L  M  N  O
    13, 6, 7, 7, 7, 7, 7, 7, 7, 7, 7, 7, 7, 7, 7, 7,
    // P  Q  R  S  T  U  V  W  X  Y  Z  [   \   ]   ^   _
    7, 7, 7, 7, 7, 7, 7, 7, 8, 7, 8, 13, 19, 13, 14, 6,
    // `   a  b  c  d  e  f  g  h  i  j  k  l  m  n  o
    15, 5, 6, 5, 6, 5, 6, 6, 6, 5, 7, 7, 6, 6, 6, 5,
    // p  q  r  s  t  u  v  w  x  y  z  {   |   }   ~   DEL
    6, 7, 6, 5, 5, 6, 7, 7, 7, 7, 7, 15, 11, 14, 13, 28,
    // 0x80 - 0x8f
    20, 22, 20, 20, 22, 22, 22, 23, 22, 23, 23, 23, 23, 23, 24, 23,
    // 0x90 - 0x9f
    24, 24, 22, 23, 24, 23, 23, 23, 23, 21, 22, 23, 22, 23, 23, 24,
    // 0xa0 - 0xaf
    22, 21, 20, 22, 22, 23, 23, 21, 23, 22, 22, 24, 21, 22, 23, 23,
    // 0xb0 - 0xbf
    21, 21, 22, 21, 23, 22, 23, 23, 20, 22, 22, 22, 23, 22, 22, 23,
    // 0xc0 - 0xcf
    26, 26, 20, 19, 22, 23, 22, 25, 26, 26, 26, 27, 27, 26, 24, 25,
    // 0xd0 - 0xdf
    19, 21, 26, 27, 27, 26, 27, 24, 21, 21, 26, 26, 28, 27, 27, 27,
    // 0xe0 - 0xef
    20, 24, 20, 21, 22, 21, 21, 23, 22, 22, 25, 25, 24, 24, 26, 23,
    // 0xf0 - 0xff
    26, 27, 26, 26, 27, 27, 27, 27, 27, 28, 27, 27, 27, 27, 27, 26,
    // EOS
    30,
];
pub const SPEC_HUFF_EOS: usize = 256;
pub const SPEC_HUFF_MAXLEN: u32 = 30;

/// Canonical code assignment from the lengths alone.
pub const fn spec_huff_codes() -> [u32; 257] {
    let mut codes = [0u32; 257];
    let mut next: u32 = 0;
    let mut len: u32 = 1;
    while len <= SPEC_HUFF_MAXLEN {
        let mut sym = 0;
        while sym < 257 {
            if SPEC_HUFF_LEN[sym] as u32 == len {
                codes[sym] = next;
                next += 1;
            }
            sym += 1;
        }
        if len < SPEC_HUFF_MAXLEN {
            next <<= 1;
        }
        len += 1;
    }
    codes
}
pub const SPEC_HUFF_CODE: [u32; 257] = spec_huff_codes();

/// RFC 7541 App. B per-length symbol counts (EOS included), used only to validate the transcription.
pub const SPEC_HUFF_COUNTS: [(u8, u32); 21] = [
    (5, 10), (6, 26), (7, 32), (8, 6), (10, 5), (11, 3), (12, 2), (13, 6), (14, 2), (15, 3), (19, 3),
    (20, 8), (21, 13), (22, 26), (23, 29), (24, 12), (25, 4), (26, 15), (27, 19), (28, 29), (30, 4),
];
pub const fn spec_huff_table_ok() -> bool {
    // per-length counts
    let mut total = 0;
    let mut kraft: u64 = 0; // sum of 2^(30-len)
    let mut len: u32 = 0;
    while len <= 32 {
        let mut n = 0;
        let mut sym = 0;
        while sym < 257 {
            if SPEC_HUFF_LEN[sym] as u32 == len {
                n += 1;
            }
            sym += 1;
        }
        let mut want = 0;
        let mut j = 0;
        while j < SPEC_HUFF_COUNTS.len() {
            if SPEC_HUFF_COUNTS[j].0 as u32 == len {
                want = SPEC_HUFF_COUNTS[j].1;
            }
            j += 1;
        }
        if n != want {
            return false;
        }
        total += n;
        if n > 0 {
            kraft += (n as u64) << (30 - len);
        }
        len += 1;
    }
    if total != 257 || kraft != 1u64 << 30 {
        return false;
    }
    // EOS is thirty ones
    if SPEC_HUFF_CODE[SPEC_HUFF_EOS] != 0x3fff_ffff {
        return false;
    }
    // prefix-free: no code is a prefix of another one
    let mut a = 0;
    while a < 257 {
        let la = SPEC_HUFF_LEN[a] as u32;
        if la < 32 && (SPEC_HUFF_CODE[a] >> la) != 0 {
            return false; // code does not fit its length
        }
        let mut b = 0;
        while b < 257 {
            let lb = SPEC_HUFF_LEN[b] as u32;
            if a != b && la <= lb && (SPEC_HUFF_CODE[b] >> (lb - la)) == SPEC_HUFF_CODE[a] {
                return false;
            }
            b += 1;
        }
        a += 1;
    }
    true
}
pub const SPEC_HUFF_TABLE_OK: bool = spec_huff_table_ok();
const _: [(); 1] = [(); SPEC_HUFF_TABLE_OK as usize]; // compile-time check: does not build if the table is wrong

/// bit `i` (0 = most significant bit of s[0]) of the big-endian bit string `s`
pub fn spec_bit(s: &[u8], i: usize) -> u8 {
    (s[i / 8] >> (7 - (i % 8))) & 1
}
/// bits [pos, pos+len) of `s` as a number, len <= 32, pos+len <= 8*s.len()
pub fn spec_bits(s: &[u8], pos: usize, len: usize) -> u32 {
    let mut v: u32 = 0;
    let mut j = 0;
    while j < len {
        v = v * 2 + spec_bit(s, pos + j) as u32;
        j += 1;
    }
    v
}
/// Up to 32 bits starting at bit `pos`, left-aligned in a u32 (missing bits are 0), fetched from at most 5
/// octets.  Same meaning as `spec_bits(s, pos, 32) `, arithmetic instead of a bit loop (cheap for CBMC).
pub fn spec_window32(s: &[u8], pos: usize) -> u32 {
    let first = pos / 8;
    let mut acc: u64 = 0;
    let mut j = 0;
    while j < 5 {
        acc *= 256;
        if first + j < s.len() {
            acc += s[first + j] as u64;
        }
        j += 1;
    }
    // acc holds 40 bits; drop pos%8 leading ones, keep the next 32
    ((acc * (1u64 << (pos % 8))) / 256 % (1u64 << 32)) as u32
}

/// One decoding step at bit position `pos` of `s` (RFC 7541 §5.2).
#[derive(Debug, PartialEq, Eq, Clone, Copy)]
pub enum SpecHuffStep {
    /// the bits at `pos` start with the code of `sym` (0..=255), which is `len` bits long and complete in `s`
    Sym { sym: u8, len: u32 },
    /// the bits at `pos` start with the 30-bit EOS code: always an error
    Eos,
    /// fewer bits are left than any matching code needs.  `pad_ok` <=> they are at most 7 and all ones
    /// (the most significant bits of EOS) - the only acceptable end of a Huffman string
    End { pad_ok: bool },
}
pub fn spec_huff_step(s: &[u8], pos: usize) -> SpecHuffStep {
    let total = s.len() * 8;
    let avail = total - pos; // pos <= total
    let w = spec_window32(s, pos);
    // "for c in 0..=256", written as three nested loops (7 x 7 x 6 >= 257) so that no single loop needs more
    // than 7 unwindings (Kani's unwind bound also limits the recursion depth of the decoder under test)
    let mut i = 0;
    while i < 7 {
        let mut j = 0;
        while j < 7 {
            let mut k = 0;
            while k < 6 {
                let c = (i * 7 + j) * 6 + k;
                if c < 257 {
                    let l = SPEC_HUFF_LEN[c] as u32;
                    if l as usize <= avail && (w >> (32 - l)) == SPEC_HUFF_CODE[c] {
                        return if c == SPEC_HUFF_EOS { SpecHuffStep::Eos } else { SpecHuffStep::Sym { sym: c as u8, len: l } };
                    }
                }
                k += 1;
            }
            j += 1;
        }
        i += 1;
    }
    // no complete code: the rest is padding
    let ones = avail < 32 && (avail == 0 || (w >> (32 - avail as u32)) == (1u32 << avail as u32) - 1);
    SpecHuffStep::End { pad_ok: avail < 8 && ones }
}

/// Whole-string reference decoder / encoder (Vec-based: for native replay tests only, never run under Kani).
pub fn spec_huff_decode(s: &[u8]) -> Option<Vec<u8>> {
    let mut out = Vec::new();
    let mut pos = 0;
    loop {
        match spec_huff_step(s, pos) {
            SpecHuffStep::Sym { sym, len } => {
                out.push(sym);
                pos += len as usize;
            }
            SpecHuffStep::Eos => return None,
            SpecHuffStep::End { pad_ok } => return if pad_ok { Some(out) } else { None },
        }
    }
}
pub fn spec_huff_encode(s: &[u8]) -> Vec<u8> {
    let mut out = Vec::new();
    let mut acc: u8 = 0;
    let mut n = 0; // bits in acc
    for &c in s {
        let l = SPEC_HUFF_LEN[c as usize] as u32;
        let code = SPEC_HUFF_CODE[c as usize];
        let mut j = l;
        while j > 0 {
            j -= 1;
            acc = acc * 2 + ((code >> j) & 1) as u8;
            n += 1;
            if n == 8 {
                out.push(acc);
                acc = 0;
                n = 0;
            }
        }
    }
    if n > 0 {
        while n < 8 {
            acc = acc * 2 + 1; // pad with the most significant bits of EOS
            n += 1;
        }
        out.push(acc);
    }
    out
}
/// byte-string equality written out (no memcmp)
pub fn spec_bytes_eq(a: &[u8], b: &[u8]) -> bool {
    if a.len() != b.len() {
        return false;
    }
    let mut i = 0;
    while i < a.len() {
        if a[i] != b[i] {
            return false;
        }
        i += 1;
    }
    true
}
/// RFC 9204 §3.1 / App. A lookups by linear search over SPEC_STATIC_TABLE; entries with a name (and value)
/// longer than `max_len` are skipped without looking at them (callers pass the bound of their input, so the
/// search stays cheap for a model checker; with max_len >= 53 it is the full table).
pub fn spec_static_find(name: &[u8], value: &[u8], max_len: usize) -> Option<usize> {
    let mut i = 0;
    while i < 99 {
        let (n, v) = SPEC_STATIC_TABLE[i];
        if n.len() <= max_len && v.len() <= max_len && spec_bytes_eq(n, name) && spec_bytes_eq(v, value) {
            return Some(i);
        }
        i += 1;
    }
    None
}
/// is `i` the index of an entry whose name is `name`?
pub fn spec_static_name_is(i: usize, name: &[u8]) -> bool {
    i < 99 && spec_bytes_eq(SPEC_STATIC_TABLE[i].0, name)
}
/// (kaniA) The N-th reserved identifier, in 128-bit arithmetic so the spec itself cannot overflow:
/// RFC 9114 "0x1f * N + 0x21 for non-negative integer values of N".  `spec_is_grease(x)` <=> exists N.
pub fn spec_grease_nth(n: u64) -> u128 { 0x1f * (n as u128) + 0x21 }

// ---- (coordinator) the closed-form renderings used by the Verus units (units/inc/vdec.rs `vdec`, units/inc/venc.rs `venc`),
// as executable text; harness c16_spec_renderings_agree proves them equal to the loop forms above on the full domain
pub fn spec_varint_dec_horner(s: &[u8]) -> Option<(u64, usize)> {
    if s.is_empty() { return None; }
    let b0 = s[0] as u64;
    if b0 < 64 { Some((b0, 1)) }
    else if b0 < 128 { if s.len() < 2 { None } else { Some(((b0 - 64) * 256 + s[1] as u64, 2)) } }
    else if b0 < 192 {
        if s.len() < 4 { None } else { Some(((((b0 - 128) * 256 + s[1] as u64) * 256 + s[2] as u64) * 256 + s[3] as u64, 4)) }
    } else if s.len() < 8 { None } else {
        Some(((((((((b0 - 192) * 256 + s[1] as u64) * 256 + s[2] as u64) * 256 + s[3] as u64) * 256 + s[4] as u64) * 256
            + s[5] as u64) * 256 + s[6] as u64) * 256 + s[7] as u64, 8))
    }
}
pub fn spec_varint_enc_div(x: u64) -> ([u8; 8], usize) {
    let mut o = [0u8; 8];
    if x < 64 { o[0] = x as u8; (o, 1) }
    else if x < 16384 { o[0] = (64 + x / 256) as u8; o[1] = (x % 256) as u8; (o, 2) }
    else if x < 1073741824 {
        o[0] = (128 + x / 16777216) as u8; o[1] = ((x / 65536) % 256) as u8; o[2] = ((x / 256) % 256) as u8; o[3] = (x % 256) as u8; (o, 4)
    } else {
        o[0] = (192 + x / 72057594037927936) as u8; o[1] = ((x / 281474976710656) % 256) as u8; o[2] = ((x / 1099511627776) % 256) as u8;
        o[3] = ((x / 4294967296) % 256) as u8; o[4] = ((x / 16777216) % 256) as u8; o[5] = ((x / 65536) % 256) as u8;
        o[6] = ((x / 256) % 256) as u8; o[7] = (x % 256) as u8; (o, 8)
    }
}
