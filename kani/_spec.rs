//! Executable rendering of the spec library (DESIGN §3.1), written from the RFC text and
//! deliberately not in the shape of the code under test.  Used by Kani harnesses and replay tests.
#![allow(dead_code)]

/// RFC 9000 §16: the shortest of the four forms; big-endian by repeated division.
pub fn spec_varint_len(x: u64) -> usize {
    if x <= 63 { 1 } else if x <= 16383 { 2 } else if x <= 1073741823 { 4 } else { 8 }
}
pub fn spec_varint_enc(x: u64) -> ([u8; 8], usize) {
    let n = spec_varint_len(x);
    let mut out = [0u8; 8];
    let mut v = x;
    let mut i = n;
    while i > 0 {
        i -= 1;
        out[i] = (v % 256) as u8;
        v /= 256;
    }
    let prefix: u8 = match n { 1 => 0x00, 2 => 0x40, 4 => 0x80, _ => 0xc0 };
    out[0] += prefix; // the two most significant bits carry log2 of the length
    (out, n)
}
/// Some((value, length)) when `s` starts with a complete encoding (minimal or not), None when truncated.
pub fn spec_varint_dec(s: &[u8]) -> Option<(u64, usize)> {
    if s.is_empty() {
        return None;
    }
    let n: usize = match s[0] / 64 { 0 => 1, 1 => 2, 2 => 4, _ => 8 };
    if s.len() < n {
        return None;
    }
    let mut v: u64 = (s[0] % 64) as u64;
    let mut i = 1;
    while i < n {
        v = v * 256 + s[i] as u64;
        i += 1;
    }
    Some((v, n))
}
pub const TWO62: u64 = 4611686018427387904;

/// RFC 9000 §2.1
pub fn spec_sid_client_initiated(id: u64) -> bool { id % 2 == 0 }
pub fn spec_sid_bidi(id: u64) -> bool { (id / 2) % 2 == 0 }
pub fn spec_sid_index(id: u64) -> u64 { id / 4 }
