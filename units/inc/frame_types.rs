// ---- frame-layer types taken from /repo (shared by the frame, request-stream and control units)
// ------------------------------------------------------------------ types taken from /repo
//@extract h3/src/proto/coding.rs :: - :: struct UnexpectedEnd
//@end
//@extract h3/src/proto/varint.rs :: - :: struct VarInt
//@attr #[derive(Clone, Copy)]
//@end
//@extract h3/src/proto/push.rs :: - :: struct PushId
//@end
//@extract h3/src/proto/push.rs :: - :: struct InvalidPushId
//@end
//@extract h3/src/proto/stream.rs :: - :: struct InvalidStreamId
//@end
//@extract h3/src/webtransport/session_id.rs :: - :: struct SessionId
//@end
//@extract h3/src/proto/frame.rs :: - :: struct PayloadLen
//@end
//@extract h3/src/proto/frame.rs :: - :: struct PushPromise
//@end
//@extract h3/src/proto/frame.rs :: - :: enum FrameError
//@end
//@extract h3/src/proto/frame.rs :: - :: enum Frame
//@end
//@extract h3/src/proto/frame.rs :: - :: struct FrameType
//@attr #[derive(Copy, Clone, Eq, PartialEq, Structural)]
//@end
impl FrameType {
//@extract h3/src/proto/frame.rs :: - :: constmacro frame_types
//@end
}
// opaque here (their own codecs are C13's units)
pub struct Settings { pub len: usize }
pub enum SettingsError { Exceeded, Malformed, Repeated, InvalidSettingId, InvalidSettingValue }

pub mod frame { pub use super::{Frame, FrameError, PayloadLen}; }   // h3/src/frame.rs names them `frame::…`
//@ifndef HAVE_ERRORS
pub struct StreamErrorIncoming { pub opaque: u64 }   // h3::quic::StreamErrorIncoming, content irrelevant here
//@endif
//@extract h3/src/frame.rs :: - :: enum FrameStreamError
//@end
//@extract h3/src/frame.rs :: - :: enum FrameProtocolError
//@end
//@extract h3/src/frame.rs :: - :: struct FrameDecoder
//@derive-default r.expected is None
//@end

