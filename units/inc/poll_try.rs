// ---- std::task::{Poll, Context} as external types
#[verifier::external_type_specification]
#[verifier::external_body]
pub struct ExContext<'a>(Context<'a>);
#[verifier::external_type_specification]
#[verifier::reject_recursive_types(T)]
pub struct ExPoll<T>(Poll<T>);

// ---- `?` applied to `Poll<Result<T, E>>` and `?` on a `Result` inside a function returning `Poll<Result<..>>`:
// std's `Try` / `FromResidual` impls for `Poll` are not specified by the installed vstd (assumed; DESIGN §5.3).
// `conv_err` stands for `From::from` on the error; the only axiom is that the identity conversion keeps the value
// (std: `impl<T> From<T> for T { fn from(t: T) -> T { t } }`).
pub mod vp_try_ax {
    use vstd::prelude::*;
    pub uninterp spec fn conv_err<E, F>(e: E) -> F;
    #[verifier::external_body]
    pub broadcast proof fn axiom_conv_identity<E>(e: E)
        ensures #[trigger] conv_err::<E, E>(e) == e
    {}
}
pub use vp_try_ax::conv_err;
// (Verus allows one module-level `broadcast use` per module: the including unit writes
//  `broadcast use vp_try_ax::axiom_conv_identity;` itself, together with its other broadcast lemmas)

pub assume_specification<T, E> [<std::task::Poll<std::result::Result<T, E>> as std::ops::Try>::branch] (p: std::task::Poll<std::result::Result<T, E>>) -> (r: std::ops::ControlFlow<<std::task::Poll<std::result::Result<T, E>> as std::ops::Try>::Residual, <std::task::Poll<std::result::Result<T, E>> as std::ops::Try>::Output>)
    ensures
        match p {
            Poll::Ready(Ok(v)) => r == std::ops::ControlFlow::<Result<std::convert::Infallible, E>, Poll<T>>::Continue(Poll::Ready(v)),
            Poll::Ready(Err(e)) => r == std::ops::ControlFlow::<Result<std::convert::Infallible, E>, Poll<T>>::Break(Err(e)),
            Poll::Pending => r == std::ops::ControlFlow::<Result<std::convert::Infallible, E>, Poll<T>>::Continue(Poll::Pending),
        };

pub assume_specification<T, E, F> [<std::task::Poll<std::result::Result<T, F>> as std::ops::FromResidual<std::result::Result<std::convert::Infallible, E>>>::from_residual] (x: std::result::Result<std::convert::Infallible, E>) -> (r: std::task::Poll<std::result::Result<T, F>>)
    where F: std::convert::From<E>,
    ensures match (x, r) { (Err(e), Poll::Ready(Err(f))) => f == conv_err::<E, F>(e), _ => false };
