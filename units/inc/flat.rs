// ---- concatenation of a sequence of buffers, with its three lemmas
pub open spec fn flat<T: Buf>(s: Seq<T>) -> Seq<u8>
    decreases s.len()
{
    if s.len() == 0 { Seq::empty() } else { s[0]@ + flat(s.skip(1)) }
}

pub proof fn lemma_flat_push<T: Buf>(s: Seq<T>, x: T)
    ensures flat(s.push(x)) == flat(s) + x@,
    decreases s.len()
{
    if s.len() == 0 {
        assert(s.push(x).skip(1) =~= Seq::<T>::empty());
        assert(flat(Seq::<T>::empty()) =~= Seq::<u8>::empty());
        assert(s.push(x)[0] == x);
        assert(flat(s.push(x)) =~= x@);
        assert(flat(s) =~= Seq::<u8>::empty());
    } else {
        assert(s.push(x).skip(1) =~= s.skip(1).push(x));
        lemma_flat_push(s.skip(1), x);
        assert(flat(s.push(x)) =~= flat(s) + x@);
    }
}

pub proof fn lemma_flat_split<T: Buf>(s: Seq<T>, i: int)
    requires 0 <= i <= s.len(),
    ensures flat(s) == flat(s.take(i)) + flat(s.skip(i)),
    decreases i
{
    if i == 0 {
        assert(s.take(0) =~= Seq::<T>::empty());
        assert(s.skip(0) =~= s);
        assert(flat(s) =~= flat(s.take(i)) + flat(s.skip(i)));
    } else {
        lemma_flat_split(s, i - 1);
        assert(s.take(i) =~= s.take(i - 1).push(s[i - 1]));
        lemma_flat_push(s.take(i - 1), s[i - 1]);
        assert(s.skip(i - 1).skip(1) =~= s.skip(i));
        assert(s.skip(i - 1)[0] == s[i - 1]);
        assert(flat(s.skip(i - 1)) == s[i - 1]@ + flat(s.skip(i)));
        assert(flat(s) =~= flat(s.take(i)) + flat(s.skip(i)));
    }
}

pub proof fn lemma_head<T: Buf>(s: Seq<T>)
    requires s.len() > 0,
    ensures flat(s) == s[0]@ + flat(s.skip(1)),
{}

// s.skip(a).skip(b) == s.skip(a + b), available to the solver without explicit calls where `broadcast use`d
pub broadcast proof fn lemma_skip_skip<A>(s: Seq<A>, a: int, b: int)
    requires 0 <= a, 0 <= b, a + b <= s.len(),
    ensures #[trigger] s.skip(a).skip(b) == s.skip(a + b),
{ assert(s.skip(a).skip(b) =~= s.skip(a + b)); }
