// ---- h3::error::Code and its constants, extracted from /repo (rule R23 expands the `codes!` table)
//@extract h3/src/error/codes.rs :: - :: struct Code
//@attr #[derive(Structural, PartialEq, Eq, Clone, Copy)]
//@end
impl Code {
//@extract h3/src/error/codes.rs :: - :: constmacro codes
//@end
}
