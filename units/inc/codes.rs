// ---- h3::error::Code and its constants, extracted from /repo (rule R23 expands the `codes!` table)
//@extract h3/src/error/codes.rs :: - :: struct Code
//@attr #[derive(Structural, PartialEq, Eq, Clone, Copy)]
//@end
impl Code {
//@extract h3/src/error/codes.rs :: - :: constmacro codes
//@end
}
// the repository's constants are the RFC 9114 §8.1 / RFC 9204 §6 / RFC 9297 numbers (a changed constant fails here, in
// every unit that speaks about error codes)
pub proof fn lemma_code_values_are_the_rfc_numbers()
    ensures
        Code::H3_DATAGRAM_ERROR.code == 0x33,
        Code::H3_NO_ERROR.code == 0x100, Code::H3_GENERAL_PROTOCOL_ERROR.code == 0x101, Code::H3_INTERNAL_ERROR.code == 0x102,
        Code::H3_STREAM_CREATION_ERROR.code == 0x103, Code::H3_CLOSED_CRITICAL_STREAM.code == 0x104,
        Code::H3_FRAME_UNEXPECTED.code == 0x105, Code::H3_FRAME_ERROR.code == 0x106, Code::H3_EXCESSIVE_LOAD.code == 0x107,
        Code::H3_ID_ERROR.code == 0x108, Code::H3_SETTINGS_ERROR.code == 0x109, Code::H3_MISSING_SETTINGS.code == 0x10a,
        Code::H3_REQUEST_REJECTED.code == 0x10b, Code::H3_REQUEST_CANCELLED.code == 0x10c, Code::H3_REQUEST_INCOMPLETE.code == 0x10d,
        Code::H3_MESSAGE_ERROR.code == 0x10e, Code::H3_CONNECT_ERROR.code == 0x10f, Code::H3_VERSION_FALLBACK.code == 0x110,
        Code::QPACK_DECOMPRESSION_FAILED.code == 0x200, Code::QPACK_ENCODER_STREAM_ERROR.code == 0x201, Code::QPACK_DECODER_STREAM_ERROR.code == 0x202,
{}
