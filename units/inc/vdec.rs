// ---- RFC 9000 §16 variable-length integers as a spec function (Horner form; the same text as
// kani/_spec.rs::spec_varint_dec_horner, which Kani proves equal to the loop form and to VarInt::decode)
pub open spec fn vdec(s: Seq<u8>) -> Option<(u64, nat)> {
    if s.len() == 0 { None } else {
        let b0 = s[0] as u64;
        if b0 < 64 { Some((b0, 1nat)) }
        else if b0 < 128 {
            if s.len() < 2 { None } else { Some((((b0 - 64) * 256 + s[1] as u64) as u64, 2nat)) }
        } else if b0 < 192 {
            if s.len() < 4 { None } else {
                Some((((((b0 - 128) * 256 + s[1] as u64) * 256 + s[2] as u64) * 256 + s[3] as u64) as u64, 4nat)) }
        } else {
            if s.len() < 8 { None } else {
                Some((((((((((b0 - 192) * 256 + s[1] as u64) * 256 + s[2] as u64) * 256 + s[3] as u64) * 256
                    + s[4] as u64) * 256 + s[5] as u64) * 256 + s[6] as u64) * 256 + s[7] as u64) as u64, 8nat)) }
        }
    }
}
pub proof fn lemma_vdec(s: Seq<u8>)
    ensures match vdec(s) {
        Some((v, n)) => 1 <= n <= 8 && n <= s.len() && v < 0x4000_0000_0000_0000,
        None => s.len() < 8 },
{}
pub proof fn lemma_vdec_prefix(s: Seq<u8>, t: Seq<u8>)
    ensures vdec(s) is Some ==> vdec(s + t) == vdec(s),
{
    if vdec(s) is Some {
        let n = vdec(s).unwrap().1;
        assert forall|i: int| #![auto] 0 <= i < s.len() implies (s + t)[i] == s[i] by {}
    }
}
pub open spec fn vlen_of_tag(b0: u8) -> nat { if b0 < 64 { 1 } else if b0 < 128 { 2 } else if b0 < 192 { 4 } else { 8 } }
pub proof fn lemma_vdec_none(s: Seq<u8>)
    ensures vdec(s) is None <==> (s.len() == 0 || s.len() < vlen_of_tag(s[0])),
            vdec(s) is Some ==> vdec(s).unwrap().1 == vlen_of_tag(s[0]),
{}
