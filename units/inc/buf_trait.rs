// ---- assumed contract of bytes::Buf (bytes 1.x documented semantics), DESIGN §3.3.
// `buf_wf` is the implementor's representation invariant (true for `Bytes` and slices);
// `chunk` is only called on non-empty buffers by h3 (Cursor::chunk would index out of bounds otherwise).
pub trait Buf: Sized {
    spec fn view(&self) -> Seq<u8>;
    spec fn buf_wf(&self) -> bool;
    spec fn contiguous(&self) -> bool;
    // evolution relation between two states of the same buffer object: every mutating method establishes it.
    // It is `true` for plain buffers; for `Take<&mut T>` it says how the *inner* buffer moved (inc/take_shim.rs).
    #[verifier::prophetic]
    spec fn step_ok(pre: &Self, post: &Self) -> bool;
    proof fn lemma_step_refl(a: &Self) requires a.buf_wf(), ensures Self::step_ok(a, a);
    proof fn lemma_step_trans(a: &Self, b: &Self, c: &Self)
        requires Self::step_ok(a, b), Self::step_ok(b, c), ensures Self::step_ok(a, c);
    fn remaining(&self) -> (r: usize)
        requires self.buf_wf(),
        ensures r == self@.len();
    fn chunk(&self) -> (r: &[u8])
        requires self.buf_wf(), self@.len() > 0,
        ensures 0 < r@.len() <= self@.len(), r@ == self@.take(r@.len() as int), self.contiguous() ==> r@ == self@;
    fn advance(&mut self, cnt: usize)
        requires (*old(self)).buf_wf(), cnt <= (*old(self))@.len(),
        ensures (*final(self)).buf_wf(), (*final(self))@ == (*old(self))@.skip(cnt as int),
            (*old(self)).contiguous() ==> (*final(self)).contiguous(), Self::step_ok(&*old(self), &*final(self));
    // provided methods of bytes::Buf (definitions in the bytes crate; contracts assumed)
    fn has_remaining(&self) -> (r: bool)
        requires self.buf_wf(),
        ensures r == (self@.len() > 0)
    { self.remaining() > 0 }
    #[verifier::external_body]
    fn get_u8(&mut self) -> (r: u8)
        requires (*old(self)).buf_wf(), (*old(self))@.len() >= 1,
        ensures (*final(self)).buf_wf(), r == (*old(self))@[0], (*final(self))@ == (*old(self))@.skip(1),
            (*old(self)).contiguous() ==> (*final(self)).contiguous(), Self::step_ok(&*old(self), &*final(self))
    { unimplemented!() }
    #[verifier::external_body]
    fn copy_to_bytes(&mut self, len: usize) -> (r: Bytes)
        requires (*old(self)).buf_wf(), len <= (*old(self))@.len(),
        ensures (*final(self)).buf_wf(), r.bytes() == (*old(self))@.take(len as int), (*final(self))@ == (*old(self))@.skip(len as int),
            (*old(self)).contiguous() ==> (*final(self)).contiguous(), Self::step_ok(&*old(self), &*final(self))
    { unimplemented!() }
}

// ---- bytes::Bytes: opaque, contiguous
#[verifier::external_body]
pub struct Bytes { b: Vec<u8> }
impl Bytes {
    pub uninterp spec fn bytes(&self) -> Seq<u8>;
    #[verifier::external_body]
    pub fn split_to(&mut self, at: usize) -> (r: Bytes)
        requires at <= old(self).bytes().len(),
        ensures r.bytes() == old(self).bytes().take(at as int), final(self).bytes() == old(self).bytes().skip(at as int),
    { unimplemented!() }
    #[verifier::external_body]
    pub fn len(&self) -> (r: usize) ensures r == self.bytes().len() { unimplemented!() }
}
impl Buf for Bytes {
    open spec fn view(&self) -> Seq<u8> { self.bytes() }
    open spec fn buf_wf(&self) -> bool { true }
    open spec fn contiguous(&self) -> bool { true }
    #[verifier::prophetic]
    open spec fn step_ok(pre: &Self, post: &Self) -> bool { true }
    proof fn lemma_step_refl(a: &Self) {}
    proof fn lemma_step_trans(a: &Self, b: &Self, c: &Self) {}
    #[verifier::external_body] fn remaining(&self) -> (r: usize) { unimplemented!() }
    #[verifier::external_body] fn chunk(&self) -> (r: &[u8]) { unimplemented!() }
    #[verifier::external_body] fn advance(&mut self, cnt: usize) { unimplemented!() }
}

// transitivity / reflexivity of `step_ok`, usable by the solver without explicit calls
pub broadcast proof fn lemma_step_trans_auto<T: Buf>(a: &T, b: &T, c: &T)
    requires #[trigger] T::step_ok(a, b), #[trigger] T::step_ok(b, c),
    ensures T::step_ok(a, c),
{ T::lemma_step_trans(a, b, c); }
