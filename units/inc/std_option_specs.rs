// ---- std::option::Option methods without a vstd spec in this build (assumed: their std documentation)
pub assume_specification<T>[ Option::<T>::replace ](o: &mut Option<T>, value: T) -> (r: Option<T>)
    ensures r == *old(o), *final(o) == Some(value);
