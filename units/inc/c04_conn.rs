// ---- shared by units `uni_streams` and `control` (C04): types taken from /repo, the transport shim, the shims of the
// layers below (BufRecvStream, FrameStream) and the error-raising callees of ConnectionInner.
use std::sync::Arc;
use std::marker::PhantomData;
//@include buf_trait.rs
//@include varint_spec.rs
//@include poll_try.rs
//@include codes.rs

#[verifier::external_body] pub fn shim_msg() -> String { unimplemented!() }

// RFC numerals used by the contracts (deliberately *not* the repository's constants: a changed constant in
// h3/src/error/codes.rs, proto/stream.rs or proto/frame.rs must make an obligation fail)
pub spec const RFC_H3_INTERNAL_ERROR: u64 = 0x102;          // RFC 9114 §8.1
pub spec const RFC_H3_STREAM_CREATION_ERROR: u64 = 0x103;
pub spec const RFC_H3_CLOSED_CRITICAL_STREAM: u64 = 0x104;
pub spec const RFC_H3_FRAME_UNEXPECTED: u64 = 0x105;
pub spec const RFC_H3_FRAME_ERROR: u64 = 0x106;
pub spec const RFC_H3_ID_ERROR: u64 = 0x108;
pub spec const RFC_H3_SETTINGS_ERROR: u64 = 0x109;
pub spec const RFC_H3_MISSING_SETTINGS: u64 = 0x10a;

// ------------------------------------------------------------------ small protocol types taken from /repo
//@extract h3/src/proto/varint.rs :: - :: struct VarInt
//@attr #[derive(Structural, PartialEq, Eq, Clone, Copy)]
//@end
//@extract h3/src/proto/coding.rs :: - :: struct UnexpectedEnd
//@end
//@extract h3/src/proto/stream.rs :: - :: struct StreamType
//@attr #[derive(Structural, PartialEq, Eq, Clone, Copy)]
//@end
impl StreamType {
//@extract h3/src/proto/stream.rs :: - :: constmacro stream_types
//@end
//@extract h3/src/proto/stream.rs :: impl StreamType :: fn from_value
//@tag C04
//@ret r
//@sig
        ensures r.0 == value,
//@end
}
//@extract h3/src/webtransport/session_id.rs :: - :: struct SessionId
//@attr #[derive(Structural, PartialEq, Eq, Clone, Copy)]
//@end
impl SessionId {
//@extract h3/src/webtransport/session_id.rs :: impl SessionId :: fn from_varint
//@tag C04 C19
//@ret r
//@sig
        ensures r.0 == id.0,
//@end
}

// ------------------------------------------------------------------ error types taken from /repo
// `dyn A + B + C` is not accepted by Verus: the payload of the catch-all variants becomes an opaque shim type
#[verifier::external_body] pub struct DynError { x: u8 }
//@extract h3/src/quic.rs :: - :: enum ConnectionErrorIncoming
//@subst "Arc<dyn std::error::Error + Send + Sync>" => "Arc<DynError>"
//@end
//@extract h3/src/quic.rs :: - :: enum StreamErrorIncoming
//@subst "Box<dyn std::error::Error + Send + Sync>" => "Box<DynError>"
//@end
//@extract h3/src/error/internal_error.rs :: - :: struct InternalConnectionError
//@end
//@extract h3/src/error/internal_error.rs :: - :: enum ErrorOrigin
//@end
//@extract h3/src/error/error.rs :: - :: enum ConnectionError
//@end
//@extract h3/src/error/error.rs :: - :: enum LocalError
//@end
impl Code {
//@extract h3/src/error/codes.rs :: impl Code :: fn value
//@tag C04
//@ret r
//@sig
        ensures r == self.code,
//@end
}
impl InternalConnectionError {
//@extract h3/src/error/internal_error.rs :: impl InternalConnectionError :: fn new
//@tag C04
//@ret r
//@sig
        ensures r.code == code, r.message == message,
//@end
}

// vstd's `From` contract is `obeys_from_spec() ==> r == from_spec(v)`: the spec side of the two conversions
impl vstd::std_specs::convert::FromSpecImpl<InternalConnectionError> for ErrorOrigin {
    open spec fn obeys_from_spec() -> bool { true }
    open spec fn from_spec(v: InternalConnectionError) -> Self { ErrorOrigin::Internal(v) }
}
impl vstd::std_specs::convert::FromSpecImpl<ConnectionErrorIncoming> for ErrorOrigin {
    open spec fn obeys_from_spec() -> bool { true }
    open spec fn from_spec(v: ConnectionErrorIncoming) -> Self { ErrorOrigin::Quic(v) }
}
impl From<InternalConnectionError> for ErrorOrigin {
//@extract h3/src/error/internal_error.rs :: impl From<InternalConnectionError> for ErrorOrigin :: fn from
//@tag C04
//@ret r
//@sig
        ensures r == ErrorOrigin::Internal(error),
//@end
}
impl From<ConnectionErrorIncoming> for ErrorOrigin {
//@extract h3/src/error/internal_error.rs :: impl From<ConnectionErrorIncoming> for ErrorOrigin :: fn from
//@tag C04
//@ret r
//@sig
        ensures r == ErrorOrigin::Quic(error),
//@end
}
/// the code an error raised by the connection driver carries on the wire (None: an error that came *from* the transport)
pub open spec fn origin_code(e: ErrorOrigin) -> Option<u64> {
    match e { ErrorOrigin::Internal(i) => Some(i.code.code), ErrorOrigin::Quic(_) => None }
}
// `T: Into<ErrorOrigin>`: the two instantiations h3 uses; their `From` impls are verified in unit conn_error
// (`ensures r == ErrorOrigin::Internal(error)` / `ErrorOrigin::Quic(error)`); stated here as the meaning of `origin_of`
pub mod c04_origin_ax {
    use vstd::prelude::*;
    use super::{ErrorOrigin, InternalConnectionError, ConnectionErrorIncoming};
    pub uninterp spec fn origin_of<T>(t: T) -> ErrorOrigin;
    #[verifier::external_body]
    pub broadcast proof fn axiom_origin_internal(e: InternalConnectionError)
        ensures #[trigger] origin_of::<InternalConnectionError>(e) == ErrorOrigin::Internal(e) {}
    #[verifier::external_body]
    pub broadcast proof fn axiom_origin_quic(e: ConnectionErrorIncoming)
        ensures #[trigger] origin_of::<ConnectionErrorIncoming>(e) == ErrorOrigin::Quic(e) {}
}
pub use c04_origin_ax::origin_of;
pub mod c04_seq_lemmas {
    use vstd::prelude::*;
    pub broadcast proof fn lemma_skip0(s: Seq<u8>)
        ensures #[trigger] s.skip(0) == s
    { assert(s.skip(0) =~= s); }
}
broadcast use vp_try_ax::axiom_conv_identity, c04_origin_ax::axiom_origin_internal, c04_origin_ax::axiom_origin_quic, c04_seq_lemmas::lemma_skip0;

// what h3 hands to `SendStream::send_data` (h3/src/stream.rs WriteBuf; its `Buf` impl is C14's) — opaque here
#[verifier::external_body] #[verifier::reject_recursive_types(B)] pub struct WriteBuf<B> { p: PhantomData<B> }
// ------------------------------------------------------------------ shim: the transport (the adversary)
pub mod quic {
    use super::*;
    pub trait RecvStream {
        /// identity of the QUIC stream (ghost)
        spec fn sid(&self) -> int;
        /// ghost log: the codes h3 passed to `stop_sending` on this stream, in order
        spec fn stops(&self) -> Seq<u64>;
        fn stop_sending(&mut self, error_code: u64)
            ensures final(self).sid() == old(self).sid(), final(self).stops() == old(self).stops().push(error_code);
    }
    pub trait SendStream<B: Buf> {
        // weakest contracts: any answer at any time.  One ghost bit: `unwritten()` = a buffer accepted by `send_data` whose
        // write `poll_ready` has not yet reported complete (h3/src/quic.rs: "poll_ready ... until the data is written").
        spec fn unwritten(&self) -> bool;
        fn poll_ready(&mut self, cx: &mut Context<'_>) -> (r: Poll<Result<(), StreamErrorIncoming>>)
            ensures match r { Poll::Ready(Ok(_)) => !final(self).unwritten(), Poll::Pending => final(self).unwritten() == old(self).unwritten(), _ => true };
        // [C14.fin.after_write] an h3 caller ends a stream only after what it handed over has been written: a FIN behind a
        // half-written buffer cuts a frame (or a stream-type varint) in two
        fn poll_finish(&mut self, cx: &mut Context<'_>) -> (r: Poll<Result<(), StreamErrorIncoming>>)
            requires !old(self).unwritten(),
            ensures final(self).unwritten() == old(self).unwritten();
        fn send_data<T: Into<WriteBuf<B>>>(&mut self, data: T) -> (r: Result<(), StreamErrorIncoming>)
            ensures match r { Ok(_) => final(self).unwritten(), Err(_) => final(self).unwritten() == old(self).unwritten() };
    }
    pub trait OpenStreams<B: Buf> {
        type BidiStream;
        type SendStream: SendStream<B>;
        fn poll_open_send(&mut self, cx: &mut Context<'_>) -> (r: Poll<Result<Self::SendStream, StreamErrorIncoming>>)
            ensures match r { Poll::Ready(Ok(s)) => !s.unwritten(), _ => true };
    }
    pub trait Connection<B: Buf>: OpenStreams<B> {
        type RecvStream: RecvStream;
        /// a stream handed out by `poll_accept_recv` is fresh: nothing read from it, nothing stopped yet
        fn poll_accept_recv(&mut self, cx: &mut Context<'_>) -> (r: Poll<Result<Self::RecvStream, ConnectionErrorIncoming>>)
            ensures match r { Poll::Ready(Ok(s)) => s.stops() == Seq::<u64>::empty(), _ => true };
    }
}
use quic::{RecvStream, SendStream};

// ------------------------------------------------------------------ shim: h3::buf::BufList<Bytes> by its `Buf` contract
// ASSUMED-FROM-UNIT: buf BufList (impl Buf for BufList<T>: remaining / chunk / advance, view = concatenation of the chunks)
#[verifier::external_body] #[verifier::reject_recursive_types(T)] pub struct BufList<T> { p: PhantomData<T> }
impl<T: Buf> Buf for BufList<T> {
    uninterp spec fn view(&self) -> Seq<u8>;
    open spec fn buf_wf(&self) -> bool { true }
    open spec fn contiguous(&self) -> bool { false }
    open spec fn step_ok(pre: &Self, post: &Self) -> bool { true }
    proof fn lemma_step_refl(a: &Self) {}
    proof fn lemma_step_trans(a: &Self, b: &Self, c: &Self) {}
    #[verifier::external_body] fn remaining(&self) -> (r: usize) { unimplemented!() }
    #[verifier::external_body] fn chunk(&self) -> (r: &[u8]) { unimplemented!() }
    #[verifier::external_body] fn advance(&mut self, cnt: usize) { unimplemented!() }
}
// bytes: `impl<T: Buf + ?Sized> Buf for &mut T` forwards every method to `**self` (assumed, bytes crate)
impl<'a, T: Buf> Buf for &'a mut T {
    open spec fn view(&self) -> Seq<u8> { (**self)@ }
    open spec fn buf_wf(&self) -> bool { (**self).buf_wf() }
    open spec fn contiguous(&self) -> bool { (**self).contiguous() }
    #[verifier::prophetic]
    open spec fn step_ok(pre: &Self, post: &Self) -> bool { mut_ref_future(*post) == mut_ref_future(*pre) }
    proof fn lemma_step_refl(a: &Self) {}
    proof fn lemma_step_trans(a: &Self, b: &Self, c: &Self) {}
    #[verifier::external_body] fn remaining(&self) -> (r: usize) { unimplemented!() }
    #[verifier::external_body] fn chunk(&self) -> (r: &[u8]) { unimplemented!() }
    #[verifier::external_body] fn advance(&mut self, cnt: usize) { unimplemented!() }
}

impl VarInt {
    // ASSUMED-FROM-UNIT: kani c16_decode_matches_spec kani c16_decode_any_chunking  (VarInt::decode == vdec on every byte string, consuming exactly
    // the encoding; same contract text as unit frames)
//@extract h3/src/proto/varint.rs :: impl VarInt :: fn decode
//@external_body
//@attr #[verifier::external_body]
//@ret res
//@sig
        requires (*old(r)).buf_wf(),
        ensures (*final(r)).buf_wf(), B::step_ok(&*old(r), &*final(r)), (*final(r))@.len() <= (*old(r))@.len(),
            match res {
                Ok(v) => vdec((*old(r))@) == Some((v.0, ((*old(r))@.len() - (*final(r))@.len()) as nat))
                    && (*final(r))@ == (*old(r))@.skip(vdec((*old(r))@).unwrap().1 as int),
                Err(_) => vdec((*old(r))@) is None,
            },
//@end
    // ASSUMED-FROM-UNIT: kani c16_encode_matches_spec (VarInt::encoded_size: 2^(first >> 6); `usize::pow` has no vstd spec)
//@extract h3/src/proto/varint.rs :: impl VarInt :: fn encoded_size
//@external_body
//@attr #[verifier::external_body]
//@ret r
//@sig
        ensures r == vlen_of_tag(first),
//@end
}

// ------------------------------------------------------------------ shim: h3::stream::BufRecvStream (inside `pin_project!`)
// View: `received` = every byte the transport has delivered on this stream so far, `consumed` = how many of them h3
// has taken out of the buffer; buffered = received.skip(consumed).  Chunk boundaries do not exist in this view: that
// BufList/Cursor implement it for every chunking is unit `buf`.
#[verifier::external_body] #[verifier::reject_recursive_types(S)] #[verifier::reject_recursive_types(B)]
pub struct BufRecvStream<S, B> { p: PhantomData<(S, B)> }
impl<S, B> BufRecvStream<S, B> {
    pub uninterp spec fn received(&self) -> Seq<u8>;
    pub uninterp spec fn consumed(&self) -> nat;
    /// the transport has reported FIN, a reset or a stream error
    pub uninterp spec fn ended(&self) -> bool;
    pub uninterp spec fn sid(&self) -> int;
    pub uninterp spec fn stops(&self) -> Seq<u64>;
    /// the most recent poll of the transport stream answered Pending (so its waker is registered, quic trait contract)
    pub uninterp spec fn last_poll_pending(&self) -> bool;
    pub open spec fn buffered(&self) -> Seq<u8> { self.received().skip(self.consumed() as int) }
    pub open spec fn same_stream(&self, o: &Self) -> bool { self.sid() == o.sid() && self.stops() == o.stops() }
    #[verifier::external_body]
    pub proof fn lemma_wf(&self) ensures self.consumed() <= self.received().len() {}
}
impl<S: RecvStream, B> BufRecvStream<S, B> {
    // ASSUMED-FROM-UNIT: frames BufRecvStream::new (h3/src/stream.rs: empty BufList, eos = false)
    #[verifier::external_body]
    pub fn new(stream: S) -> (r: Self)
        ensures r.received() == Seq::<u8>::empty(), r.consumed() == 0, !r.ended(), r.sid() == stream.sid(), r.stops() == stream.stops(),
    { unimplemented!() }
    // ASSUMED-FROM-UNIT: frames BufRecvStream::poll_read (h3/src/stream.rs; on top of the transport's `poll_data`, which may
    // answer anything at any time: Pending, a non-empty chunk, FIN, any error)
    #[verifier::external_body]
    pub fn poll_read(&mut self, cx: &mut Context<'_>) -> (r: Poll<Result<bool, StreamErrorIncoming>>)
        ensures final(self).same_stream(old(self)), final(self).consumed() == old(self).consumed(),
            old(self).received().is_prefix_of(final(self).received()),
            final(self).last_poll_pending() == (r is Pending),
            match r {
                Poll::Ready(Ok(false)) => final(self).received().len() > old(self).received().len() && final(self).ended() == old(self).ended(),
                Poll::Ready(Ok(true)) => final(self).received() == old(self).received() && final(self).ended(),
                Poll::Ready(Err(StreamErrorIncoming::ConnectionErrorIncoming { .. })) => final(self).received() == old(self).received() && final(self).ended() == old(self).ended(),
                Poll::Ready(Err(_)) => final(self).received() == old(self).received() && final(self).ended(),
                Poll::Pending => final(self).received() == old(self).received() && final(self).ended() == old(self).ended(),
            },
    { unimplemented!() }
    // ASSUMED-FROM-UNIT: frames BufRecvStream::buf_mut (`&mut self.buf`).  Prophetic: if the holder of the borrow only
    // *consumes* from the front of the list, the stream has consumed that many bytes more and received nothing.
    #[verifier::external_body]
    pub fn buf_mut(&mut self) -> (r: &mut BufList<Bytes>)
        ensures (*r)@ == old(self).buffered(), final(self).same_stream(old(self)), final(self).ended() == old(self).ended(),
            final(self).last_poll_pending() == old(self).last_poll_pending(),
            ({ let a = (*r)@; let b = (*final(r))@;
               b.len() <= a.len() && b == a.skip(a.len() - b.len())
                   ==> final(self).received() == old(self).received() && final(self).consumed() == old(self).consumed() + (a.len() - b.len()) }),
    { unimplemented!() }
}
impl<S: RecvStream, B> RecvStream for BufRecvStream<S, B> {
    open spec fn sid(&self) -> int { BufRecvStream::<S, B>::sid(self) }
    open spec fn stops(&self) -> Seq<u64> { BufRecvStream::<S, B>::stops(self) }
    // ASSUMED-FROM-UNIT: frames impl RecvStream for BufRecvStream::stop_sending (forwards to the transport stream)
    #[verifier::external_body]
    fn stop_sending(&mut self, error_code: u64)
        ensures final(self).received() == old(self).received(), final(self).consumed() == old(self).consumed(),
    { unimplemented!() }
}

// ------------------------------------------------------------------ frame types taken from /repo
//@extract h3/src/proto/push.rs :: - :: struct PushId
//@attr #[derive(Clone, Copy)]
//@end
//@extract h3/src/proto/push.rs :: - :: struct InvalidPushId
//@end
//@extract h3/src/proto/stream.rs :: - :: struct InvalidStreamId
//@end
//@extract h3/src/proto/stream.rs :: - :: struct StreamId
//@attr #[derive(Clone, Copy, PartialEq, Eq, Hash)]
//@end
//@extract h3/src/proto/frame.rs :: - :: struct PayloadLen
//@end
//@extract h3/src/proto/frame.rs :: - :: struct PushPromise
//@end
//@extract h3/src/proto/frame.rs :: - :: enum Frame
//@end
// opaque here (their codecs are C13's): SETTINGS payload and its errors
#[verifier::external_body] pub struct Settings { x: u8 }
#[verifier::external_body] pub struct SettingsError { x: u8 }
// ------------------------------------------------------------------ shim: FrameStream (unit frames)
#[verifier::external_body] pub struct FrameDecoder { x: u8 }
//@extract h3/src/frame.rs :: - :: struct FrameStream
//@attr #[verifier::reject_recursive_types(S)]
//@attr #[verifier::reject_recursive_types(B)]
//@end
impl<S, B> FrameStream<S, B> {
    /// ghost: the frames `poll_next` has handed out on this stream so far, in order (DESIGN §7c `taken`)
    pub uninterp spec fn taken_seq(&self) -> Seq<Frame<PayloadLen>>;
    pub open spec fn taken(&self) -> nat { self.taken_seq().len() }
    /// ghost: number of `poll_next` calls made on this stream
    pub uninterp spec fn polls(&self) -> nat;
    // ASSUMED-FROM-UNIT: frames FrameStream::new
//@extract h3/src/frame.rs :: impl FrameStream<S, B> :: fn new
//@external_body
//@attr #[verifier::external_body]
//@ret r
//@sig
        ensures r.stream == stream, r.remaining_data == 0, r.taken_seq() == Seq::<Frame<PayloadLen>>::empty(), r.polls() == 0,
//@end
}

// ------------------------------------------------------------------ AcceptRecvStream
//@extract h3/src/stream.rs :: - :: enum AcceptedRecvStream
//@attr #[verifier::reject_recursive_types(S)]
//@attr #[verifier::reject_recursive_types(B)]
//@end
//@extract h3/src/stream.rs :: - :: struct AcceptRecvStream
//@attr #[verifier::reject_recursive_types(S)]
//@attr #[verifier::reject_recursive_types(B)]
//@end
//@extract h3/src/stream.rs :: - :: enum StreamEnd
//@end
//@extract h3/src/stream.rs :: - :: enum PollTypeError
//@end


// ------------------------------------------------------------------ ConnectionInner and what it is made of (taken from /repo)
#[verifier::external_body] pub struct SharedState { x: u8 }
pub mod config {
//@extract h3/src/config.rs :: - :: struct Config
//@end
//@extract h3/src/config.rs :: - :: struct Settings
//@end
}
use config::Config;
//@extract h3/src/connection.rs :: - :: struct AcceptedStreams
//@attr #[verifier::reject_recursive_types(C)]
//@attr #[verifier::reject_recursive_types(B)]
//@end
//@extract h3/src/connection.rs :: - :: struct QpackStreams
//@attr #[verifier::reject_recursive_types(C)]
//@attr #[verifier::reject_recursive_types(B)]
//@end
//@extract h3/src/connection.rs :: - :: enum GreaseStatus
//@attr #[verifier::reject_recursive_types(S)]
//@attr #[verifier::reject_recursive_types(B)]
//@end
// ghost fields (erased; no executable statement reads them):
//   g_raised — every error the driver has passed to `handle_connection_error`, in order ("treated as a connection
//              error of type X" = an entry Internal{code: X})
//   g_uni    — disposition log of `poll_accept_recv` (unit uni_streams): (stream identity, what it resolved to)
//   g_stops  — (stream identity, code) for every `stop_sending` issued on a resolved unidirectional stream
//   g_accepted — identities of the streams taken from the transport's `poll_accept_recv` during the last run
//@extract h3/src/connection.rs :: - :: struct ConnectionInner
//@attr #[verifier::reject_recursive_types(C)]
//@attr #[verifier::reject_recursive_types(B)]
//@ghost-field g_raised: Ghost<Seq<ErrorOrigin>>
//@ghost-field g_uni: Ghost<Seq<(int, UniDisp)>>
//@ghost-field g_stops: Ghost<Seq<(int, u64)>>
//@ghost-field g_accepted: Ghost<Seq<int>>
//@end
// source paths used by the extracted bodies (`stream::PollTypeError::…`, rule R6)
pub mod stream { pub use super::PollTypeError; }
pub enum UniKind { Control, Push, Encoder, Decoder, WebTransportUni(u64), Unknown }
pub enum UniDisp { ClosedEarly, Resolved(UniKind) }
