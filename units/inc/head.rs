#![feature(allocator_api)]
#![allow(unused)]
use vstd::prelude::*;
use std::collections::VecDeque;
use std::task::{Context, Poll};
verus! {
global size_of usize == 8;
