// ---- BufRecvStream / FrameStream with their contracts.  Unit `frames` verifies the bodies; a unit that starts with
// `//@define ASSUME_UNIT_frames` relies on exactly these contracts.
// ================================================================== layer 4: BufRecvStream / FrameStream
//@include poll_try.rs
//@include quic_recv.rs
use std::marker::PhantomData;

//@extract h3/src/stream.rs :: - :: struct BufRecvStream
//@end

impl<S, B> BufRecvStream<S, B> {
//@extract h3/src/stream.rs :: impl BufRecvStream<S, B> :: fn new
//@external_body_if ASSUME_UNIT_frames
//@tag C19
//@ret r
//@sig
        ensures r.buf@ =~= Seq::<u8>::empty(), r.buf.wf(), r.eos == false, r.stream == stream, // [C19.bufrecv.new]
//@end
}
#[verifier::external_body] pub struct IoError { x: u8 }
// ASSUMED: h3/src/stream.rs convert_to_std_io_error = std::io::Error::other(e)
#[verifier::external_body] pub fn convert_to_std_io_error(error: StreamErrorIncoming) -> IoError { unimplemented!() }
// `Poll<Result<T, E>>::map_err(convert_to_std_io_error)` (std definition; the rewriter does not look inside `ready!(..)`)
pub fn vp_poll_map_io(p: Poll<Result<bool, StreamErrorIncoming>>) -> (r: Poll<Result<bool, IoError>>)
    ensures match p { Poll::Ready(Ok(b)) => r == Poll::<Result<bool, IoError>>::Ready(Ok(b)), Poll::Ready(Err(_)) => r matches Poll::Ready(Err(_)), Poll::Pending => r is Pending },
{
    match p { Poll::Ready(Ok(b)) => Poll::Ready(Ok(b)), Poll::Ready(Err(e)) => Poll::Ready(Err(convert_to_std_io_error(e))), Poll::Pending => Poll::Pending }
}
// ASSUMED (std): `dst[..len].copy_from_slice(src)` — panics unless src.len() == len <= dst.len()
#[verifier::external_body]
pub fn vp_copy_prefix(dst: &mut [u8], len: usize, src: &Bytes)
    requires len <= old(dst)@.len(), src@.len() == len,
    ensures final(dst)@.len() == old(dst)@.len(), final(dst)@.take(len as int) == src@, final(dst)@.skip(len as int) == old(dst)@.skip(len as int),
{ unimplemented!() }
// ASSUMED (tokio::io::ReadBuf): `remaining()` = room left, `put_slice` appends to the filled part (panics without room)
#[verifier::external_body] pub struct ReadBuf { x: u8 }
impl ReadBuf {
    pub uninterp spec fn filled(&self) -> Seq<u8>;
    pub uninterp spec fn room(&self) -> nat;
    #[verifier::external_body] pub fn remaining(&self) -> (r: usize) ensures r == self.room() { unimplemented!() }
    #[verifier::external_body]
    pub fn put_slice(&mut self, src: &Bytes)
        requires src@.len() <= old(self).room(),
        ensures final(self).filled() == old(self).filled() + src@, final(self).room() == old(self).room() - src@.len(),
    { unimplemented!() }
}
impl<S: RecvStream, B> BufRecvStream<S, B> {
    // what is buffered is the not-yet-consumed tail of what the transport has delivered
    pub open spec fn wf(&self) -> bool {
        &&& self.buf.wf()
        &&& self.buf@.len() <= self.stream.delivered().len()
        &&& self.buf@ == self.stream.delivered().skip(self.stream.delivered().len() - self.buf@.len())
        &&& (self.eos ==> self.stream.finished())
    }
    pub open spec fn consumed(&self) -> int { self.stream.delivered().len() - self.buf@.len() }
//@extract h3/src/stream.rs :: impl BufRecvStream<S, B> :: fn poll_read
//@external_body_if ASSUME_UNIT_frames
//@tag C02 C06
//@ret r
//@qconv 1r
//@sig
        requires old(self).wf(),
        ensures final(self).wf(), final(self).consumed() == old(self).consumed(),
            final(self).stream.stops() == old(self).stream.stops(),
            old(self).stream.delivered().is_prefix_of(final(self).stream.delivered()),
            old(self).eos ==> final(self).eos,
            match r {
                Poll::Ready(Ok(true)) => final(self).eos && final(self).buf@ == old(self).buf@ && final(self).stream.pendings() == old(self).stream.pendings(), // [C02.read.eos]
                Poll::Ready(Ok(false)) => final(self).eos == old(self).eos && final(self).stream.pendings() == old(self).stream.pendings()
                    && final(self).buf@.len() > old(self).buf@.len()
                    && final(self).buf@ == old(self).buf@ + final(self).stream.delivered().skip(old(self).stream.delivered().len() as int), // [C02.read.append]
                Poll::Ready(Err(_)) => final(self).eos == old(self).eos && final(self).buf@ == old(self).buf@ && final(self).stream.pendings() == old(self).stream.pendings(),
                Poll::Pending => final(self).eos == old(self).eos && final(self).buf@ == old(self).buf@
                    && final(self).stream.pendings() == old(self).stream.pendings() + 1, // [C06.read.pending]
            },
//@at "self.buf.push_bytes(&mut data);" before
            let ghost d0 = data@;
            let ghost del0 = old(self).stream.delivered();
//@at "self.buf.push_bytes(&mut data);" after
            proof {
                let del1 = self.stream.delivered();
                assert(del1 =~= del0 + d0);
                assert(del1.skip(del0.len() as int) =~= d0);
                assert(self.buf@ =~= del1.skip(del1.len() - self.buf@.len()));
            }
//@end
//@extract h3/src/stream.rs :: impl BufRecvStream<S, B> :: fn buf_mut
//@external_body_if ASSUME_UNIT_frames
//@tag C02
//@ret r
//@sig
        ensures *r == old(self).buf, final(self).eos == old(self).eos, final(self).stream == old(self).stream, final(self).buf == *final(r),
//@end
//@extract h3/src/stream.rs :: impl BufRecvStream<S, B> :: fn buf
//@external_body_if ASSUME_UNIT_frames
//@ret r
//@sig
        ensures *r == self.buf,
//@end
//@extract h3/src/stream.rs :: impl BufRecvStream<S, B> :: fn is_eos
//@external_body_if ASSUME_UNIT_frames
//@ret r
//@sig
        ensures r == self.eos,
//@end
//@extract h3/src/stream.rs :: impl BufRecvStream<S, B> :: fn has_remaining
//@external_body_if ASSUME_UNIT_frames
//@tag C02 C06
//@ret r
//@sig
        requires old(self).buf.wf(),
        ensures *final(self) == *old(self), r == (old(self).buf@.len() > 0),
//@end
// ---- the unframed readers (WebTransport payload after the stream header, C19): what they hand out is exactly the next
// not-yet-consumed bytes of the transport stream, in order — nothing skipped, nothing repeated, buffered bytes first
//@extract h3/src/stream.rs :: impl BufRecvStream<S, B> :: fn take_chunk
//@external_body_if ASSUME_UNIT_frames
//@tag C19 C06
//@ret r
//@sig
        requires old(self).wf(),
        ensures final(self).wf(), final(self).stream == old(self).stream, final(self).eos == old(self).eos,
            match r {
                Some(c) => c@.len() <= limit && (limit > 0 ==> c@.len() > 0) && final(self).consumed() == old(self).consumed() + c@.len()
                    && c@ == old(self).stream.delivered().subrange(old(self).consumed(), final(self).consumed()), // [C19.raw.take_chunk]
                None => old(self).buf@.len() == 0 && final(self).buf@.len() == 0,
            },
//@entry
        proof {
            let d = self.stream.delivered();
            let b = self.buf@;
            assert(forall|k: int| 0 <= k <= b.len() ==> #[trigger] b.take(k) =~= d.subrange(d.len() - b.len(), d.len() - b.len() + k));
            assert(forall|k: int| 0 <= k <= b.len() ==> #[trigger] b.skip(k) =~= d.skip(d.len() - (b.len() - k)));
        }
//@end
// `impl RecvStream for BufRecvStream` (h3/src/stream.rs): the same bodies, hosted as inherent methods so that the
// representation invariant can be their precondition (a trait impl cannot add one); `Self::Buf` is `Bytes` there.
//@extract h3/src/stream.rs :: impl RecvStream for BufRecvStream<S, B> :: fn poll_data
//@external_body_if ASSUME_UNIT_frames
//@rename raw_poll_data
//@subst "Self::Buf" => "Bytes"
//@tag C19 C06
//@ret r
//@qconv 1r
//@sig
        requires old(self).wf(),
        ensures final(self).wf(), final(self).stream.stops() == old(self).stream.stops(),
            old(self).stream.delivered().is_prefix_of(final(self).stream.delivered()),
            old(self).eos ==> final(self).eos,
            match r {
                // buffered bytes (those that arrived together with the stream header) come out first, then the transport's chunks
                Poll::Ready(Ok(Some(c))) => c@.len() > 0 && final(self).consumed() == old(self).consumed() + c@.len()
                    && c@ == final(self).stream.delivered().subrange(old(self).consumed(), final(self).consumed())
                    && (old(self).buf@.len() > 0 ==> final(self).stream == old(self).stream)
                    && final(self).stream.pendings() == old(self).stream.pendings() && final(self).eos == old(self).eos, // [C19.raw.order]
                // the end is reported only when nothing is buffered and the transport has finished
                Poll::Ready(Ok(None)) => final(self).eos && final(self).stream.finished() && old(self).buf@.len() == 0 && final(self).buf@.len() == 0
                    && final(self).consumed() == old(self).consumed(), // [C19.raw.end]
                Poll::Ready(Err(_)) => final(self).buf@ == old(self).buf@ && final(self).consumed() == old(self).consumed() && final(self).eos == old(self).eos,
                Poll::Pending => final(self).buf@ == old(self).buf@ && final(self).consumed() == old(self).consumed() && final(self).eos == old(self).eos
                    && old(self).buf@.len() == 0 && final(self).stream.pendings() == old(self).stream.pendings() + 1, // [C06.raw.pending]
            },
//@entry
        // (hints at entry, quantified over what the callees may return, so that no hint hangs on a statement of the body)
        proof {
            let d = self.stream.delivered();
            let b = self.buf@;
            assert forall|c: Seq<u8>, nb: Seq<u8>| b == #[trigger] (c + nb) implies
                nb == d.skip(d.len() - nb.len()) && c == d.subrange(d.len() - b.len(), d.len() - b.len() + c.len()) by {
                assert(nb =~= b.skip(c.len() as int));
                assert(c =~= b.take(c.len() as int));
                assert(b.take(c.len() as int) =~= d.subrange(d.len() - b.len(), d.len() - b.len() + c.len()));
                assert(b.skip(c.len() as int) =~= d.skip(d.len() - nb.len()));
            }
            assert forall|x: Seq<u8>| true implies (#[trigger] (d + x)).subrange(d.len() as int, (d + x).len() as int) == x && x.take(x.len() as int) == x
                && (d + x).skip((d + x).len() as int) == Seq::<u8>::empty() by {
                assert((d + x).subrange(d.len() as int, (d + x).len() as int) =~= x);
                assert(x.take(x.len() as int) =~= x);
                assert((d + x).skip((d + x).len() as int) =~= Seq::<u8>::empty());
            }
            assert(d.skip(d.len() as int) =~= Seq::<u8>::empty());
        }
//@end
// `impl futures_util::io::AsyncRead for BufRecvStream` (the reader WebTransport applications use).  Dropped by R0: the pin
// (`Pin<&mut Self>` => `&mut self`; BufRecvStream is Unpin), the slice copy `buf[..len].copy_from_slice(&chunk)` replaced
// by the shim `vp_copy_prefix` with exactly that meaning.  std::io::Error is opaque.
//@extract h3/src/stream.rs :: impl futures_util::io::AsyncRead for BufRecvStream<S, B> :: fn poll_read
//@external_body_if ASSUME_UNIT_frames
//@rename async_poll_read
//@subst "mut self: Pin<&mut Self>" => "&mut self"
//@subst "let p = &mut *self;" => "let p = self;"
//@subst "buf[..len].copy_from_slice(&chunk);" => "vp_copy_prefix(buf, len, &chunk);"
//@subst "Poll<futures_util::io::Result<usize>>" => "Poll<Result<usize, IoError>>"
//@subst "p.poll_read(cx).map_err(convert_to_std_io_error)" => "vp_poll_map_io(p.poll_read(cx))"
//@tag C19 C06
//@ret r
//@qconv 1r
//@sig
        requires old(self).wf(),
        ensures final(self).wf(), final(self).stream.stops() == old(self).stream.stops(),
            old(self).stream.delivered().is_prefix_of(final(self).stream.delivered()), final(buf)@.len() == old(buf)@.len(),
            match r {
                // n bytes copied: they are exactly the next n not-yet-consumed bytes of the stream, and they are consumed
                Poll::Ready(Ok(n)) => n <= old(buf)@.len() && final(self).consumed() == old(self).consumed() + n
                    && final(buf)@.take(n as int) == final(self).stream.delivered().subrange(old(self).consumed(), final(self).consumed())
                    && final(buf)@.skip(n as int) == old(buf)@.skip(n as int)
                    // 0 is answered only for an empty destination or at the end of the stream with nothing buffered
                    && (n == 0 ==> old(buf)@.len() == 0 || (final(self).eos && final(self).buf@.len() == 0)), // [C19.raw.asyncread]
                Poll::Ready(Err(_)) => final(self).consumed() == old(self).consumed() && final(buf)@ == old(buf)@,
                Poll::Pending => final(self).consumed() == old(self).consumed() && final(buf)@ == old(buf)@ && old(self).buf@.len() == 0, // [C06.raw.pending]
            },
//@at "let chunk = p.buf_mut().take_chunk(buf.len());" before
        let ghost mid = *p;
//@at "let chunk = p.buf_mut().take_chunk(buf.len());" after
        proof {
            let d = mid.stream.delivered();
            let b = mid.buf@;
            let k = b.len() - p.buf@.len();
            assert(b.take(k) =~= d.subrange(d.len() - b.len(), d.len() - b.len() + k));
            assert(b.skip(k) =~= d.skip(d.len() - (b.len() - k)));
        }
//@end
// `impl tokio::io::AsyncRead for BufRecvStream`: the same reader over tokio's `ReadBuf` (shim below: what has been filled
// and how much room is left).  Same R0 drops as above.
//@extract h3/src/stream.rs :: impl tokio::io::AsyncRead for BufRecvStream<S, B> :: fn poll_read
//@external_body_if ASSUME_UNIT_frames
//@rename tokio_poll_read
//@subst "mut self: Pin<&mut Self>" => "&mut self"
//@subst "let p = &mut *self;" => "let p = self;"
//@subst "buf: &mut ReadBuf<'_>" => "buf: &mut ReadBuf"
//@subst "Poll<futures_util::io::Result<()>>" => "Poll<Result<(), IoError>>"
//@subst "p.poll_read(cx).map_err(convert_to_std_io_error)" => "vp_poll_map_io(p.poll_read(cx))"
//@tag C19 C06
//@ret r
//@qconv 1r
//@sig
        requires old(self).wf(),
        ensures final(self).wf(), final(self).stream.stops() == old(self).stream.stops(),
            old(self).stream.delivered().is_prefix_of(final(self).stream.delivered()),
            final(buf).filled().len() + final(buf).room() == old(buf).filled().len() + old(buf).room(),
            match r {
                // what was appended to the filled part is exactly the next not-yet-consumed bytes of the stream, and they are consumed
                Poll::Ready(Ok(_)) => ({ let n = final(self).consumed() - old(self).consumed();
                    &&& 0 <= n <= old(buf).room()
                    &&& final(buf).filled() == old(buf).filled() + final(self).stream.delivered().subrange(old(self).consumed(), final(self).consumed())
                    // nothing appended only for a full destination or at the end of the stream with nothing buffered
                    &&& (n == 0 ==> old(buf).room() == 0 || (final(self).eos && final(self).buf@.len() == 0)) }), // [C19.raw.asyncread.tokio]
                Poll::Ready(Err(_)) => final(self).consumed() == old(self).consumed() && final(buf).filled() == old(buf).filled(),
                Poll::Pending => final(self).consumed() == old(self).consumed() && final(buf).filled() == old(buf).filled() && old(self).buf@.len() == 0, // [C06.raw.pending]
            },
//@at "let chunk = p.buf_mut().take_chunk(buf.remaining());" before
        let ghost mid = *p;
//@at "let chunk = p.buf_mut().take_chunk(buf.remaining());" after
        proof {
            let d = mid.stream.delivered();
            let b = mid.buf@;
            let k = b.len() - p.buf@.len();
            assert(b.take(k) =~= d.subrange(d.len() - b.len(), d.len() - b.len() + k));
            assert(b.skip(k) =~= d.skip(d.len() - (b.len() - k)));
            assert(d.subrange(mid.consumed(), mid.consumed()) =~= Seq::<u8>::empty());
        }
//@end
//@extract h3/src/stream.rs :: impl RecvStream for BufRecvStream<S, B> :: fn stop_sending
//@external_body_if ASSUME_UNIT_frames
//@rename raw_stop_sending
//@tag C07
//@sig
        ensures final(self).buf == old(self).buf, final(self).eos == old(self).eos,
            final(self).stream.stops() == old(self).stream.stops().push(error_code), final(self).stream.delivered() == old(self).stream.delivered(),
            final(self).stream.finished() == old(self).stream.finished(), final(self).stream.pendings() == old(self).stream.pendings(), // [C07.stop.forward]
//@end
}

//@extract h3/src/frame.rs :: - :: struct FrameStream
//@ghost-field taken: Ghost<Seq<Frame<PayloadLen>>>
//@end
// `taken` (ghost, a pure recording): every frame poll_next has handed out on this stream, in order — the vocabulary in
// which the layers above state which frame sequences they accept (C03, C04)

impl<S: RecvStream, B> FrameStream<S, B> {
    // (while DATA payload bytes are owed the decoder's memo is empty: poll_data consumes from the front)
    pub open spec fn wf(&self) -> bool { self.stream.wf() && self.decoder.memo_ok(self.stream.buf@) && (self.remaining_data > 0 ==> self.decoder.expected is None) }
    pub open spec fn delivered(&self) -> Seq<u8> { self.stream.stream.delivered() }
    pub open spec fn consumed(&self) -> int { self.stream.consumed() }
    pub open spec fn unread(&self) -> Seq<u8> { self.stream.buf@ }
    // everything the transport has delivered that had not been consumed when `pre` was the state
    pub open spec fn since(&self, pre: &Self) -> Seq<u8> { self.delivered().skip(pre.consumed()) }

//@extract h3/src/frame.rs :: impl FrameStream<S, B> :: fn try_recv
//@external_body_if ASSUME_UNIT_frames
//@tag C02 C06
//@ret r
//@sig
        requires old(self).stream.wf(),
        ensures final(self).stream.wf(), final(self).remaining_data == old(self).remaining_data, final(self).decoder == old(self).decoder, final(self).taken == old(self).taken,
            // what is unread afterwards is what was unread before followed by the bytes that arrived in this call
            final(self).unread() == final(self).delivered().skip(old(self).consumed()),
            old(self).decoder.memo_ok(old(self).unread()) ==> final(self).decoder.memo_ok(final(self).unread()),
            final(self).consumed() == old(self).consumed(), old(self).delivered().is_prefix_of(final(self).delivered()),
            final(self).stream.stream.stops() == old(self).stream.stream.stops(),
            old(self).stream.eos ==> final(self).stream.eos,
            match r {
                Poll::Ready(Ok(true)) => final(self).stream.eos && final(self).unread() == old(self).unread() && final(self).stream.stream.pendings() == old(self).stream.stream.pendings(),
                Poll::Ready(Ok(false)) => !old(self).stream.eos && final(self).stream.eos == old(self).stream.eos && final(self).unread().len() > old(self).unread().len()
                    && final(self).unread() == old(self).unread() + final(self).delivered().skip(old(self).delivered().len() as int)
                    && final(self).stream.stream.pendings() == old(self).stream.stream.pendings(),
                Poll::Pending => !old(self).stream.eos && !final(self).stream.eos && final(self).unread() == old(self).unread()
                    && final(self).stream.stream.pendings() == old(self).stream.stream.pendings() + 1, // [C06.tryrecv.pending]
                Poll::Ready(Err(e)) => (e matches FrameStreamError::Quic(_)) && final(self).unread() == old(self).unread() && final(self).stream.eos == old(self).stream.eos
                    && final(self).stream.stream.pendings() == old(self).stream.stream.pendings(),
            },
//@on R25
//@at "let __vp_m1 = " after
        proof {
            let t = self.delivered().skip(old(self).delivered().len() as int);
            if self.unread() != old(self).unread() {
                assert(self.delivered() =~= old(self).delivered() + t);
                assert(self.delivered().skip(old(self).consumed()) =~= old(self).unread() + t);
                if let Some(min) = self.decoder.expected {
                    if old(self).decoder.memo_ok(old(self).unread()) {
                        assert forall|u: Seq<u8>| #![trigger (self.unread() + u)] (self.unread() + u).len() < min implies head_needs_more(self.unread() + u) by {
                            assert(self.unread() + u =~= old(self).unread() + (t + u));
                        }
                    }
                }
            } else {
                assert(self.delivered() =~= old(self).delivered());
                assert(self.delivered().skip(old(self).consumed()) =~= self.unread());
            }
        }
//@entry
        proof { assert(self.delivered().skip(self.consumed()) =~= self.unread()); }
//@end

//@extract h3/src/frame.rs :: impl FrameStream<S, B> :: fn poll_next
//@attr #[verifier::rlimit(50)]
//@external_body_if ASSUME_UNIT_frames
//@tag C02 C03 C04 C06
//@on R25
//@attr #[verifier::exec_allows_no_decreases_clause]
//@attr #[verifier::spinoff_prover]
//@ret r
//@qconv 1p 2r
//@sig
        requires old(self).wf(),
            old(self).remaining_data == 0, // [C06.pre] callers have drained the DATA payload — this is the `assert!`
        ensures final(self).wf(), old(self).delivered().is_prefix_of(final(self).delivered()), old(self).consumed() <= final(self).consumed(),
            final(self).stream.stream.stops() == old(self).stream.stream.stops(),
            match r {
                // the frame handed out is the first non-unknown frame of the not yet consumed bytes, read as RFC 9114 §7.2
                // says and consumed exactly (DATA: header only); unknown frames before it were skipped in full
                Poll::Ready(Ok(Some(f))) => ({ let s = skip_unknown(final(self).since(&*old(self))); 0 <= frame_len(s, f) <= s.len()
                    && decoded_as(s, f, frame_len(s, f)) && final(self).unread() == s.skip(frame_len(s, f)) }), // [C02.stream.frame]
                // clean end: FIN seen and, apart from whole unknown frames, nothing was left
                Poll::Ready(Ok(None)) => final(self).stream.eos && final(self).unread().len() == 0
                    && skip_unknown(final(self).since(&*old(self))).len() == 0, // [C02.eos.clean]
                // FIN seen with a strict prefix of a frame left over: truncated frame (H3_FRAME_ERROR at the callers)
                Poll::Ready(Err(FrameStreamError::UnexpectedEnd)) => final(self).stream.eos && final(self).unread().len() > 0
                    && final(self).unread() == skip_unknown(final(self).since(&*old(self))) && head_needs_more(final(self).unread()), // [C02.eos.truncated]
                Poll::Ready(Err(FrameStreamError::Proto(_))) => final(self).unread() == skip_unknown(final(self).since(&*old(self)))
                    && !head_needs_more(final(self).unread()), // [C02.stream.proto]
                Poll::Ready(Err(FrameStreamError::Quic(_))) => true,
                // waiting only while the peer has not finished, and only after the transport itself answered Pending
                Poll::Pending => !final(self).stream.eos && final(self).stream.stream.pendings() > old(self).stream.stream.pendings(), // [C06.nowait]
            },
            // the ghost log grows by exactly the frame handed out
            final(self).taken@ == (match r { Poll::Ready(Ok(Some(f))) => old(self).taken@.push(f), _ => old(self).taken@ }), // [C02.stream.taken]
            old(self).stream.eos ==> final(self).stream.eos, final(self).stream.stream.pendings() >= old(self).stream.stream.pendings(),
            old(self).stream.eos ==> !(r is Pending), // [C06.eos.ready]
            // a DATA header arms the payload counter with exactly the declared length (WebTransport: unbounded)
            match r { Poll::Ready(Ok(Some(Frame::Data(PayloadLen(len))))) => final(self).remaining_data == len,
                      Poll::Ready(Ok(Some(Frame::WebTransportStream(_)))) => final(self).remaining_data == usize::MAX,
                      _ => final(self).remaining_data == 0 }, // [C03.data.arm]
            // fixed-field mismatch / HTTP/2-reserved types surface as the protocol errors mapped to H3_FRAME_ERROR / H3_FRAME_UNEXPECTED
            (fixed_field_mismatch(skip_unknown(final(self).since(&*old(self))))
                ==> (r matches Poll::Ready(Err(FrameStreamError::Proto(FrameProtocolError::Malformed)))
                     || r matches Poll::Ready(Err(FrameStreamError::Proto(FrameProtocolError::InvalidFrameValue)))
                     || r matches Poll::Ready(Err(FrameStreamError::Quic(_))))), // [C02.stream.fixed]
            (h2_reserved_head(skip_unknown(final(self).since(&*old(self))))
                ==> (r matches Poll::Ready(Err(FrameStreamError::Proto(FrameProtocolError::ForbiddenFrame(_))))
                     || r matches Poll::Ready(Err(FrameStreamError::Quic(_))))), // [C02.stream.h2]
//@loop 1
            invariant self.wf(), self.remaining_data == 0, old(self).wf(),
                old(self).delivered().is_prefix_of(self.delivered()), old(self).consumed() <= self.consumed(),
                self.stream.stream.stops() == old(self).stream.stream.stops(),
                self.stream.stream.pendings() == old(self).stream.stream.pendings(),
                old(self).stream.eos ==> self.stream.eos,
                skip_unknown(self.since(&*old(self))) == skip_unknown(self.unread()),
                self.taken == old(self).taken,
//@entry
        // this layer only passes the frame-level predicates through: keep them folded
        hide(skip_unknown); hide(decoded_as); hide(frame_len); hide(head_needs_more); hide(fixed_field_mismatch); hide(h2_reserved_head);
        hide(whole_frame); hide(payload_of); hide(hdr); hide(vdec);
        broadcast use lemma_skip_skip;
        proof {
            assert(self.since(&*old(self)) =~= self.unread());
        }
//@at "let end = " before
            broadcast use lemma_skip_skip;   // (loop bodies are verified in isolation: `broadcast use` must be repeated here)
            let ghost pre = *self;
//@at "let end = " after
            proof {
                // bytes appended by the transport: both views grow by the same suffix
                let t = self.delivered().skip(pre.delivered().len() as int);
                let c0 = old(self).consumed();
                assert(0 <= c0 <= pre.delivered().len());
                if self.unread() != pre.unread() {
                    assert(self.delivered() =~= pre.delivered() + t);
                    assert(self.since(&*old(self)) =~= pre.since(&*old(self)) + t);
                    lemma_skip_unknown_extend(pre.since(&*old(self)), t);
                    lemma_skip_unknown_extend(pre.unread(), t);
                    assert(self.unread() == pre.unread() + t);
                    if let Some(min) = self.decoder.expected {
                        assert forall|u: Seq<u8>| #![trigger (self.unread() + u)] (self.unread() + u).len() < min implies head_needs_more(self.unread() + u) by {
                            assert(self.unread() + u =~= pre.unread() + (t + u));
                        }
                    }
                } else {
                    assert(self.delivered() =~= pre.delivered());
                }
                lemma_skip_unknown_idem(self.unread());
            }
            let ghost mid = *self;
//@at "let __vp_m1 = " after
            proof {
                if __vp_m1 is Some { self.taken = Ghost(self.taken@.push(__vp_m1.unwrap())); }
                // what the decoder left is a suffix of what was buffered, hence still the tail of what was delivered
                let d = self.delivered();
                assert(self.stream.stream == mid.stream.stream && self.stream.eos == mid.stream.eos);
                assert(self.unread() == mid.unread().skip(mid.unread().len() - self.unread().len()));
                assert(mid.unread() == d.skip(d.len() - mid.unread().len()));
                lemma_skip_skip(d, d.len() - mid.unread().len(), mid.unread().len() - self.unread().len());
                assert(self.stream.wf());
                assert(self.since(&*old(self)) == mid.since(&*old(self)));
                assert(skip_unknown(mid.since(&*old(self))) == skip_unknown(mid.unread()));
            }
//@end
}

impl<S: RecvStream, B> FrameStream<S, B> {
//@extract h3/src/frame.rs :: impl FrameStream<S, B> :: fn poll_data
//@external_body_if ASSUME_UNIT_frames
//@tag C02 C03 C06
//@ret r
//@subst "Option<impl Buf>" => "Option<Bytes>"
//@sig
        requires old(self).wf(),
        ensures final(self).wf(), old(self).delivered().is_prefix_of(final(self).delivered()), old(self).consumed() <= final(self).consumed(),
            final(self).stream.stream.stops() == old(self).stream.stream.stops(),
            // end-of-payload is reported only when the declared DATA length has been delivered in full
            (r matches Poll::Ready(Ok(None))) ==> old(self).remaining_data == 0 && *final(self) == *old(self), // [C03.eob]
            // payload bytes come out once, in order, never beyond the declared length
            match r { Poll::Ready(Ok(Some(d))) => 0 < d@.len() <= old(self).remaining_data
                && final(self).remaining_data == old(self).remaining_data - d@.len()
                && d@.len() <= final(self).since(&*old(self)).len()
                && d@ == final(self).since(&*old(self)).take(d@.len() as int)
                && final(self).unread() == final(self).since(&*old(self)).skip(d@.len() as int), _ => true }, // [C02.data.bytes]
            // the stream ended inside the DATA payload: truncated frame
            (r matches Poll::Ready(Err(FrameStreamError::UnexpectedEnd))) ==> final(self).stream.eos && old(self).remaining_data > 0
                && final(self).since(&*old(self)).len() < old(self).remaining_data, // [C02.data.truncated]
            (r matches Poll::Ready(Err(FrameStreamError::Proto(_)))) ==> false,
            // a transport error (peer RESET, connection error) is handed on as it is — it is not a truncated frame
            (r matches Poll::Ready(Err(FrameStreamError::UnexpectedEnd))) ==> final(self).stream.stream.finished(), // [C07.reset.passthrough] [C02.data.truncated.fin]
            // waiting only while the peer has not finished, after the transport answered Pending
            r is Pending ==> !final(self).stream.eos && final(self).stream.stream.pendings() > old(self).stream.stream.pendings()
                && final(self).remaining_data == old(self).remaining_data && final(self).unread() == old(self).unread(), // [C06.data.nowait]
            final(self).taken == old(self).taken,
            old(self).stream.eos ==> final(self).stream.eos, final(self).stream.stream.pendings() >= old(self).stream.stream.pendings(),
            old(self).stream.eos ==> !(r is Pending), // [C06.data.eos.ready]
            // a stream that has ended with payload bytes still owed is never reported as a clean end or left waiting
            old(self).remaining_data > 0 && final(self).stream.eos && final(self).since(&*old(self)).len() == 0
                ==> (r matches Poll::Ready(Err(_))), // [C02.data.cut]
//@entry
        broadcast use lemma_skip_skip;
        proof { assert(self.since(&*old(self)) =~= self.unread()); }
//@end
//@extract h3/src/frame.rs :: impl FrameStream<S, B> :: fn has_data
//@external_body_if ASSUME_UNIT_frames
//@tag C03
//@ret r
//@sig
        ensures r == (self.remaining_data != 0),
//@end
//@extract h3/src/frame.rs :: impl FrameStream<S, B> :: fn is_eos
//@external_body_if ASSUME_UNIT_frames
//@tag C03 C06
//@ret r
//@sig
        requires self.stream.buf.wf(),
        ensures r == (self.stream.eos && self.unread().len() == 0),
//@end
}
impl<S, B> FrameStream<S, B> {
//@extract h3/src/frame.rs :: impl FrameStream<S, B> :: fn new
//@external_body_if ASSUME_UNIT_frames
//@ghost-init Self|FrameStream taken: Ghost(Seq::empty())
//@tag C02 C03
//@ret r
//@sig
        ensures r.stream == stream, r.remaining_data == 0, r.decoder.expected is None, r.taken@.len() == 0, // [C02.framestream.new]
//@end
//@extract h3/src/frame.rs :: impl FrameStream<S, B> :: fn into_inner
//@external_body_if ASSUME_UNIT_frames
//@tag C19
//@ret r
//@sig
        ensures r == self.stream, // [C19.into_inner] the buffered bytes that followed the header are handed on intact
//@end
}

// ---- splitting an accepted bidirectional stream (WebTransport, C19): what was already buffered goes to the receive half
pub trait BidiStream<B>: Sized {
    type SendStream;
    type RecvStream;
    fn split(self) -> (Self::SendStream, Self::RecvStream);
}
impl<S, B> BidiStream<B> for BufRecvStream<S, B>
where
    S: BidiStream<B>,
{
    type SendStream = BufRecvStream<S::SendStream, B>;
    type RecvStream = BufRecvStream<S::RecvStream, B>;
//@extract h3/src/stream.rs :: impl BidiStream<B> for BufRecvStream<S, B> :: fn split
//@external_body_if ASSUME_UNIT_frames
//@tag C19 C01
//@ret r
//@sig
        ensures r.1.buf == self.buf, r.1.eos == self.eos, // [C19.split.buffer] bytes that followed the stream header are not lost
//@end
}
impl<S, B> FrameStream<S, B>
where
    S: BidiStream<B>,
{
//@extract h3/src/frame.rs :: impl FrameStream<S, B> :: fn split
//@external_body_if ASSUME_UNIT_frames
//@ghost-init Self|FrameStream taken: Ghost(Seq::empty())
//@tag C02 C03 C19 C01
//@ret r
//@sig
        // the receive half reads on exactly where the unsplit stream stood: same buffered bytes, same end-of-stream flag,
        // same decoder memo, and — inside a DATA frame — the same number of payload bytes still owed
        ensures r.1.stream.buf == self.stream.buf, r.1.stream.eos == self.stream.eos, r.1.decoder == self.decoder,
            r.1.remaining_data == self.remaining_data, // [C02.split.reader] [C03.split.remaining]
//@end
}
