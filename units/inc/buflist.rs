// ---- BufList / Cursor with their contracts.  Unit `buf` verifies the bodies; a unit that starts with
// `//@define ASSUME_UNIT_buf` relies on exactly these contracts (bodies dropped, counted as assumed-from-unit).
//@extract h3/src/buf.rs :: - :: struct BufList
//@end

impl<T: Buf> BufList<T> {
    pub open spec fn view(&self) -> Seq<u8> { flat(self.bufs@) }
    pub open spec fn wf(&self) -> bool {
        forall|i: int| 0 <= i < self.bufs@.len() ==>
            #[trigger] self.bufs@[i]@.len() > 0 && self.bufs@[i].contiguous() && self.bufs@[i].buf_wf()
    }
//@extract h3/src/buf.rs :: impl BufList<T> :: fn new
//@external_body_if ASSUME_UNIT_buf
//@tag C02
//@sig
        ensures r.wf(), r@ =~= Seq::<u8>::empty(), // [C02.buflist.new]
//@ret r
//@end
//@extract h3/src/buf.rs :: impl BufList<T> :: fn cursor
//@external_body_if ASSUME_UNIT_buf
//@tag C02
//@sig
        requires self.wf(),
        ensures r.wf(), r.buf == self, r.pos_total == 0, r@ == self@, // [C02.cursor.new]
//@ret r
//@at "Cursor {" before
        proof { assert(self.bufs@.take(0) =~= Seq::<T>::empty()); assert(self@.skip(0) =~= self@);
                if self.bufs@.len() == 0 { } }
//@end
}

impl BufList<Bytes> {
//@extract h3/src/buf.rs :: impl BufList<Bytes> :: fn take_first_chunk
//@external_body_if ASSUME_UNIT_buf
//@tag C02 C06
//@sig
        requires old(self).wf(),
        ensures final(self).wf(),
            match r { Some(c) => old(self)@ == c@ + final(self)@ && c@.len() > 0, // [C02.buflist.take_first]
                      None => old(self)@.len() == 0 && final(self)@.len() == 0 },
//@ret r
//@entry
        proof {
            if self.bufs@.len() > 0 { lemma_flat_split(self.bufs@, 1); assert(self.bufs@.take(1) =~= Seq::<Bytes>::empty().push(self.bufs@[0])); lemma_flat_push(Seq::<Bytes>::empty(), self.bufs@[0]); assert(flat(Seq::<Bytes>::empty()) =~= Seq::<u8>::empty()); }
            else { assert(flat(self.bufs@) =~= Seq::<u8>::empty()); }
        }
//@end
//@extract h3/src/buf.rs :: impl BufList<Bytes> :: fn take_chunk
//@external_body_if ASSUME_UNIT_buf
//@tag C02 C06
//@sig
        requires old(self).wf(),
        ensures final(self).wf(),
            match r {
                Some(c) => old(self)@ == c@ + final(self)@ && c@.len() <= max_len && (max_len > 0 ==> c@.len() > 0)
                    && c@.len() <= old(self)@.len() && c@ == old(self)@.take(c@.len() as int) && final(self)@ == old(self)@.skip(c@.len() as int), // [C02.buflist.take_chunk]
                None => old(self)@.len() == 0 && final(self)@.len() == 0,
            },
//@ret r
//@at "if let Some(front) = self.bufs.front()" before
        proof {
            let s0 = old(self).bufs@;
            if s0.len() > 0 {
                lemma_flat_split(s0, 1);
                assert(s0.take(1) =~= Seq::<Bytes>::empty().push(s0[0]));
                lemma_flat_push(Seq::<Bytes>::empty(), s0[0]);
                assert(flat(Seq::<Bytes>::empty()) =~= Seq::<u8>::empty());
                let s1 = self.bufs@;
                lemma_flat_split(s1, 1);
                assert(s1.take(1) =~= Seq::<Bytes>::empty().push(s1[0]));
                lemma_flat_push(Seq::<Bytes>::empty(), s1[0]);
                assert(s1.skip(1) =~= s0.skip(1));
                assert(chunk is Some);
                assert(s0[0]@ =~= chunk.unwrap()@ + s1[0]@);
                assert(flat(s0) =~= chunk.unwrap()@ + flat(s1));
            } else {
                assert(flat(s0) =~= Seq::<u8>::empty());
            }
        }
//@at "let _ = self.bufs.pop_front();" before
                proof {
                    let s1 = self.bufs@;
                    lemma_flat_split(s1, 1);
                    assert(s1.take(1) =~= Seq::<Bytes>::empty().push(s1[0]));
                    lemma_flat_push(Seq::<Bytes>::empty(), s1[0]);
                    assert(flat(Seq::<Bytes>::empty()) =~= Seq::<u8>::empty());
                    assert(flat(s1) =~= flat(s1.skip(1)));
                }
//@end
//@extract h3/src/buf.rs :: impl BufList<Bytes> :: fn push_bytes
//@external_body_if ASSUME_UNIT_buf
//@tag C02 C06
//@sig
        requires old(self).wf(), (*old(buf)).buf_wf(), (*old(buf))@.len() > 0,
        ensures final(self).wf(), final(self)@ == old(self)@ + (*old(buf))@, (*final(buf))@.len() == 0, // [C02.buflist.push]
            (*final(buf)).buf_wf(),
//@at "self.bufs.push_back(" before
        let ghost sb = self.bufs@;
        proof { assert forall|x: Bytes| #[trigger] flat(sb.push(x)) == flat(sb) + x@ by { lemma_flat_push(sb, x); }
                assert((*old(buf))@.take((*old(buf))@.len() as int) =~= (*old(buf))@); }
//@end
}

impl<T: Buf> Buf for BufList<T> {
    open spec fn view(&self) -> Seq<u8> { flat(self.bufs@) }
    open spec fn buf_wf(&self) -> bool { self.wf() }
    open spec fn contiguous(&self) -> bool { false }
    #[verifier::prophetic]
    open spec fn step_ok(pre: &Self, post: &Self) -> bool { true }
    proof fn lemma_step_refl(a: &Self) {}
    proof fn lemma_step_trans(a: &Self, b: &Self, c: &Self) {}
//@extract h3/src/buf.rs :: impl Buf for BufList<T> :: fn remaining
//@external_body
//@attr #[verifier::external_body]
//@ret r
//@end
//@extract h3/src/buf.rs :: impl Buf for BufList<T> :: fn chunk
//@external_body
//@attr #[verifier::external_body]
//@ret r
//@end
//@extract h3/src/buf.rs :: impl Buf for BufList<T> :: fn advance
//@external_body_if ASSUME_UNIT_buf
//@tag C02 C06
//@attr #[verifier::loop_isolation(false)]
//@entry
        let ghost cnt0 = cnt;
//@loop 1
            invariant self.wf(), cnt <= self@.len(), self@.skip(cnt as int) == (*old(self))@.skip(cnt0 as int), // [C02.buflist.advance]
            decreases cnt
//@at "let front = &mut self.bufs[0];" before ^1
            let ghost sb = self.bufs@;
            let ghost before = self@;
            proof {
                assert(sb.len() > 0) by { if sb.len() == 0 { assert(flat(sb) =~= Seq::<u8>::empty()); } }
                lemma_head(sb);
            }
//@at "return;" before
                    proof {
                        let s1 = self.bufs@;
                        assert(s1.skip(1) =~= sb.skip(1));
                        lemma_head(s1);
                        assert(self@ =~= before.skip(cnt as int));
                    }
//@at "self.bufs.pop_front();" before
            proof {
                let s1 = self.bufs@;
                assert(s1.skip(1) =~= sb.skip(1));
                lemma_head(s1);
                assert(s1[0]@.len() == 0);
                assert(flat(s1) =~= flat(sb.skip(1)));
                assert(flat(sb.skip(1)) =~= before.skip(sb[0]@.len() as int));
            }
//@at "self.bufs.pop_front();" after
            proof {
                assert(self.bufs@ =~= sb.skip(1));
                assert(self@ =~= before.skip(sb[0]@.len() as int));
                assert(self@.skip(cnt as int) =~= before.skip((sb[0]@.len() + cnt) as int));
            }
//@end
}

//@extract h3/src/buf.rs :: - :: struct Cursor
//@end

impl<'a, B: Buf> Cursor<'a, B> {
    pub open spec fn wf(&self) -> bool {
        &&& self.buf.wf()
        &&& self.index <= self.buf.bufs@.len()
        &&& self.pos_total == flat(self.buf.bufs@.take(self.index as int)).len() + self.pos_front
        &&& (self.index < self.buf.bufs@.len() ==> self.pos_front < self.buf.bufs@[self.index as int]@.len())
        &&& (self.index == self.buf.bufs@.len() ==> self.pos_front == 0)
    }
    pub open spec fn view(&self) -> Seq<u8> { self.buf@.skip(self.pos_total as int) }

    pub proof fn lemma_bounds(&self)
        requires self.wf(),
        ensures self.pos_total <= self.buf@.len(),
            self.index < self.buf.bufs@.len() ==>
                self.pos_total - self.pos_front + self.buf.bufs@[self.index as int]@.len() <= self.buf@.len(),
            self.index == self.buf.bufs@.len() ==> self.pos_total == self.buf@.len(),
    {
        let s = self.buf.bufs@;
        let i = self.index as int;
        lemma_flat_split(s, i);
        if i < s.len() {
            assert(s.skip(i).skip(1) =~= s.skip(i + 1));
            assert(flat(s.skip(i)) == s[i]@ + flat(s.skip(i + 1)));
        } else {
            assert(s.skip(i) =~= Seq::<B>::empty());
        }
    }
//@extract h3/src/buf.rs :: impl Cursor<'a, B> :: fn position
//@external_body_if ASSUME_UNIT_buf
//@tag C02
//@sig
        ensures r == self.pos_total,
//@ret r
//@end
}

impl<'a, B: Buf> Buf for Cursor<'a, B> {
    open spec fn view(&self) -> Seq<u8> { self.buf@.skip(self.pos_total as int) }
    open spec fn buf_wf(&self) -> bool { self.wf() }
    open spec fn contiguous(&self) -> bool { false }
    // a cursor only ever moves forward over the same list
    #[verifier::prophetic]
    open spec fn step_ok(pre: &Self, post: &Self) -> bool { post.buf == pre.buf && pre.pos_total <= post.pos_total }
    proof fn lemma_step_refl(a: &Self) {}
    proof fn lemma_step_trans(a: &Self, b: &Self, c: &Self) {}
//@extract h3/src/buf.rs :: impl Buf for Cursor<'a, B> :: fn remaining
//@external_body_if ASSUME_UNIT_buf
//@tag C02 C06
//@ret r
//@entry
        proof { self.lemma_bounds(); }
//@end
//@extract h3/src/buf.rs :: impl Buf for Cursor<'a, B> :: fn chunk
//@external_body_if ASSUME_UNIT_buf
//@tag C02 C06
//@ret r
//@entry
        proof {
            self.lemma_bounds();
            let s = self.buf.bufs@;
            let i = self.index as int;
            lemma_flat_split(s, i);
            assert(s.skip(i).skip(1) =~= s.skip(i + 1));
            assert(flat(s.skip(i)) == s[i]@ + flat(s.skip(i + 1)));
            assert(self@ =~= s[i]@.skip(self.pos_front as int) + flat(s.skip(i + 1)));
            assert(s[i]@.skip(self.pos_front as int) =~= self@.take(s[i]@.len() - self.pos_front));
        }
//@end
//@extract h3/src/buf.rs :: impl Buf for Cursor<'a, B> :: fn advance
//@external_body_if ASSUME_UNIT_buf
//@tag C02 C06
//@attr #[verifier::loop_isolation(false)]
//@sig
        ensures (*final(self)).buf == (*old(self)).buf, (*final(self)).pos_total == (*old(self)).pos_total + cnt, // [C02.cursor.advance]
//@entry
        let ghost cnt0 = cnt;
        proof { self.lemma_bounds(); }
//@loop 1
            invariant
                self.wf(), self.buf == (*old(self)).buf,
                self.pos_total + cnt == (*old(self)).pos_total + cnt0,
                self.pos_total + cnt <= self.buf@.len(),
                self.buf@.len() <= usize::MAX,
            decreases cnt
//@at "let front = &self.buf.bufs[self.index];" before ^1
            proof { self.lemma_bounds(); }
//@at "return;" before
                    assert(self.pos_total == (*old(self)).pos_total + cnt0);
                    assert(self.wf());
                    assert(self@ =~= (*old(self))@.skip(cnt0 as int));
//@at "self.index += 1;" before
            proof {
                let s = self.buf.bufs@;
                let i = self.index as int;
                assert(s.take(i + 1) =~= s.take(i).push(s[i]));
                lemma_flat_push(s.take(i), s[i]);
            }
//@end
}
