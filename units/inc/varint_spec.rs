// ---- RFC 9000 §16 variable-length integers as a spec function (same definition as kani/_spec.rs spec_varint_dec:
// length from the two most significant bits of the first byte, value = remaining 6 bits then big-endian bytes).
pub open spec fn spec_varint_len(first: u8) -> nat {
    if first < 64 { 1 } else if first < 128 { 2 } else if first < 192 { 4 } else { 8 }
}
pub open spec fn spec_be(v: nat, s: Seq<u8>) -> nat
    decreases s.len()
{
    if s.len() == 0 { v } else { spec_be(v * 256 + s[0] as nat, s.skip(1)) }
}
/// Some((value, length)) when `s` starts with a complete encoding (minimal or not), None when truncated / empty.
pub open spec fn spec_varint_dec(s: Seq<u8>) -> Option<(nat, nat)> {
    if s.len() == 0 || s.len() < spec_varint_len(s[0]) { None }
    else { let n = spec_varint_len(s[0]); Some((spec_be((s[0] % 64) as nat, s.subrange(1, n as int)), n)) }
}
/// decoding depends only on the bytes of the encoding itself: later bytes (later chunks) cannot change it
pub proof fn lemma_varint_dec_prefix(s: Seq<u8>, t: Seq<u8>)
    requires spec_varint_dec(s) is Some, s.is_prefix_of(t),
    ensures spec_varint_dec(t) == spec_varint_dec(s),
{
    let n = spec_varint_len(s[0]);
    assert(t[0] == s[0]);
    assert(t.subrange(1, n as int) =~= s.subrange(1, n as int));
}
