//@include vdec.rs
