// ---- RFC 9000 §16 encoding as a spec function (shortest form), and the round trip with inc/vdec.rs
pub open spec fn venc(x: u64) -> Seq<u8> {
    if x < 64 { seq![x as u8] }
    else if x < 16384 { seq![(64 + x / 256) as u8, (x % 256) as u8] }
    else if x < 1073741824 {
        seq![(128 + x / 16777216) as u8, ((x / 65536) % 256) as u8, ((x / 256) % 256) as u8, (x % 256) as u8]
    } else {
        seq![(192 + x / 72057594037927936) as u8, ((x / 281474976710656) % 256) as u8, ((x / 1099511627776) % 256) as u8,
             ((x / 4294967296) % 256) as u8, ((x / 16777216) % 256) as u8, ((x / 65536) % 256) as u8,
             ((x / 256) % 256) as u8, (x % 256) as u8]
    }
}
pub proof fn lemma_venc_len(x: u64)
    requires x < 0x4000_0000_0000_0000,
    ensures 1 <= venc(x).len() <= 8,
{}
pub proof fn lemma_venc_vdec(x: u64, t: Seq<u8>)
    requires x < 0x4000_0000_0000_0000,
    ensures vdec(venc(x) + t) == Some((x, venc(x).len() as nat)),
{
    let e = venc(x);
    let s = e + t;
    assert forall|i: int| #![auto] 0 <= i < e.len() implies s[i] == e[i] by {}
    if x < 64 {
        assert(s[0] == x as u8);
    } else if x < 16384 {
        assert(s[0] == (64 + x / 256) as u8 && s[1] == (x % 256) as u8);
        assert(((64 + x / 256) as u8) as u64 == 64 + x / 256);
        assert((x / 256) * 256 + x % 256 == x);
    } else if x < 1073741824 {
        assert(s[0] == (128 + x / 16777216) as u8 && s[1] == ((x / 65536) % 256) as u8 && s[2] == ((x / 256) % 256) as u8 && s[3] == (x % 256) as u8);
        assert(x == (((x / 16777216) * 256 + (x / 65536) % 256) * 256 + (x / 256) % 256) * 256 + x % 256) by (bit_vector);
        assert(x / 16777216 < 64) by (bit_vector) requires x < 1073741824;
    } else {
        assert(s[0] == (192 + x / 72057594037927936) as u8);
        assert(s[1] == ((x / 281474976710656) % 256) as u8 && s[2] == ((x / 1099511627776) % 256) as u8 && s[3] == ((x / 4294967296) % 256) as u8);
        assert(s[4] == ((x / 16777216) % 256) as u8 && s[5] == ((x / 65536) % 256) as u8 && s[6] == ((x / 256) % 256) as u8 && s[7] == (x % 256) as u8);
        assert(x == (((((((x / 72057594037927936) * 256 + (x / 281474976710656) % 256) * 256 + (x / 1099511627776) % 256) * 256
            + (x / 4294967296) % 256) * 256 + (x / 16777216) % 256) * 256 + (x / 65536) % 256) * 256 + (x / 256) % 256) * 256 + x % 256) by (bit_vector);
        assert(x / 72057594037927936 < 64) by (bit_vector) requires x < 0x4000_0000_0000_0000;
    }
}
