// ---- h3::quic::RecvStream — the transport is the adversary: the weakest contract, with a ghost log of what it
// has handed out.  One real restriction (DESIGN §5.3): a chunk it yields is never empty.
pub trait RecvStream {
    type Buf: Buf;
    spec fn delivered(&self) -> Seq<u8>;   // all bytes handed out by poll_data so far, in order
    spec fn finished(&self) -> bool;       // poll_data has answered Ok(None)
    spec fn pendings(&self) -> nat;        // how often poll_data answered Pending (each time a waker was registered)
    spec fn stops(&self) -> Seq<u64>;      // codes given to stop_sending
    fn poll_data(&mut self, cx: &mut Context<'_>) -> (r: Poll<Result<Option<Self::Buf>, StreamErrorIncoming>>)
        ensures (*final(self)).stops() == (*old(self)).stops(),
            match r {
                Poll::Ready(Ok(Some(b))) => b.buf_wf() && b@.len() > 0 && (*final(self)).delivered() == (*old(self)).delivered() + b@
                    && (*final(self)).finished() == (*old(self)).finished() && (*final(self)).pendings() == (*old(self)).pendings(),
                Poll::Ready(Ok(None)) => (*final(self)).delivered() == (*old(self)).delivered() && (*final(self)).finished()
                    && (*final(self)).pendings() == (*old(self)).pendings(),
                Poll::Ready(Err(_)) => (*final(self)).delivered() == (*old(self)).delivered()
                    && (*final(self)).finished() == (*old(self)).finished() && (*final(self)).pendings() == (*old(self)).pendings(),
                Poll::Pending => (*final(self)).delivered() == (*old(self)).delivered()
                    && (*final(self)).finished() == (*old(self)).finished() && (*final(self)).pendings() == (*old(self)).pendings() + 1,
            };
    fn stop_sending(&mut self, error_code: u64)
        ensures (*final(self)).stops() == (*old(self)).stops().push(error_code),
            (*final(self)).delivered() == (*old(self)).delivered(), (*final(self)).finished() == (*old(self)).finished(),
            (*final(self)).pendings() == (*old(self)).pendings();
}
