// ---- RFC 9114 §7.1 / §7.2 as spec functions over byte sequences, with their lemmas
pub open spec fn two62() -> int { 0x4000_0000_0000_0000 }
pub open spec fn spec_push_promise(p: Seq<u8>) -> Option<(u64, Seq<u8>)> {
    match vdec(p) { Some((id, n)) => Some((id, p.skip(n as int))), None => None }
}

// ------------------------------------------------------------------ spec: the frame at the head of s (RFC 9114 §7.1)
pub open spec fn hdr(s: Seq<u8>) -> Option<(u64, u64, nat)> {   // (type, length, header size)
    match vdec(s) {
        None => None,
        Some((ty, n1)) => match vdec(s.skip(n1 as int)) {
            None => None,
            Some((len, n2)) => Some((ty, len, n1 + n2)),
        }
    }
}
pub open spec fn is_h2_reserved(ty: u64) -> bool { ty == 0x2 || ty == 0x6 || ty == 0x8 || ty == 0x9 }
pub open spec fn is_known_type(ty: u64) -> bool {
    ty == 0x0 || ty == 0x1 || ty == 0x3 || ty == 0x4 || ty == 0x5 || ty == 0x7 || ty == 0xd || ty == 0x41 || is_h2_reserved(ty)
}
// frames whose payload is exactly one variable-length integer (RFC 9114 §7.2.3, §7.2.6, §7.2.7)
pub open spec fn is_single_varint_frame(ty: u64) -> bool { ty == 0x3 || ty == 0x7 || ty == 0xd }
// the whole frame (header + declared payload) is present at the head of s
pub open spec fn whole_frame(s: Seq<u8>) -> bool {
    hdr(s) is Some && hdr(s).unwrap().2 + hdr(s).unwrap().1 <= s.len()
}
pub open spec fn payload_of(s: Seq<u8>) -> Seq<u8> {
    s.subrange(hdr(s).unwrap().2 as int, hdr(s).unwrap().2 + hdr(s).unwrap().1)
}
// smallest number of bytes any stream starting with s needs before the frame at its head can be complete
// (|s|+1 while the header itself is incomplete)
pub open spec fn frame_need(s: Seq<u8>) -> nat {
    match hdr(s) { None => (s.len() + 1) as nat, Some((ty, len, h)) => (h + len) as nat }
}
// the bytes at the head of s are not yet a whole frame (header incomplete, or payload of a non-DATA frame incomplete;
// a WebTransport stream header is type + session id)
pub open spec fn head_needs_more(s: Seq<u8>) -> bool {
    vdec(s) is None || ({ let (ty, n1) = vdec(s).unwrap();
        if ty == 0x41 { vdec(s.skip(n1 as int)) is None }
        else { hdr(s) is None || (ty != 0x0 && !whole_frame(s)) } })
}
// `f` is the RFC 9114 §7.2 reading of the frame at the head of `s`, of which `n` bytes are consumed
// (DATA: only the header; WebTransport: type + session id; every other frame: header + declared length)
pub open spec fn decoded_as(s: Seq<u8>, f: Frame<PayloadLen>, n: int) -> bool {
    match f {
        Frame::Data(PayloadLen(k)) => hdr(s) is Some && hdr(s).unwrap().0 == 0x0 && k == hdr(s).unwrap().1 && n == hdr(s).unwrap().2,
        Frame::WebTransportStream(id) => vdec(s) is Some && vdec(s).unwrap().0 == 0x41 && ({ let n1 = vdec(s).unwrap().1 as int;
            vdec(s.skip(n1)) is Some && id.0 == vdec(s.skip(n1)).unwrap().0 && n == n1 + vdec(s.skip(n1)).unwrap().1 }),
        Frame::Grease => false,
        _ => whole_frame(s) && n == hdr(s).unwrap().2 + hdr(s).unwrap().1 && ({ let (ty, len, h) = hdr(s).unwrap(); match f {
            Frame::Headers(b) => ty == 0x1 && b.bytes() == payload_of(s),
            Frame::CancelPush(v) => ty == 0x3 && vdec(payload_of(s)) == Some((v.0, len as nat)),
            Frame::Settings(_) => ty == 0x4,
            Frame::PushPromise(p) => ty == 0x5 && spec_push_promise(payload_of(s)) == Some((p.id, p.encoded.bytes())),
            Frame::Goaway(v) => ty == 0x7 && vdec(payload_of(s)) == Some((v.0, len as nat)),
            Frame::MaxPushId(v) => ty == 0xd && vdec(payload_of(s)) == Some((v.0, len as nat)),
            _ => false } }),
    }
}
// RFC 9114 §7.1: a whole frame whose payload is longer or shorter than its single fixed field
pub open spec fn fixed_field_mismatch(s: Seq<u8>) -> bool {
    whole_frame(s) && is_single_varint_frame(hdr(s).unwrap().0)
        && (vdec(payload_of(s)) is None || vdec(payload_of(s)).unwrap().1 != hdr(s).unwrap().1)
}
// RFC 9114 §7.2.8: a whole frame of a type reserved from HTTP/2
pub open spec fn h2_reserved_head(s: Seq<u8>) -> bool { whole_frame(s) && is_h2_reserved(hdr(s).unwrap().0) }
// how many bytes the frame `f` read at the head of `s` occupies (see decoded_as)
pub open spec fn frame_len(s: Seq<u8>, f: Frame<PayloadLen>) -> int {
    match f {
        Frame::Data(_) => hdr(s).unwrap().2 as int,
        Frame::WebTransportStream(_) => (vdec(s).unwrap().1 + vdec(s.skip(vdec(s).unwrap().1 as int)).unwrap().1) as int,
        _ => (hdr(s).unwrap().2 + hdr(s).unwrap().1) as int,
    }
}
pub open spec fn consumed_exactly(pre: Seq<u8>, post: Seq<u8>, n: int) -> bool {
    0 <= n <= pre.len() && post == pre.skip(n)
}

// unknown-type frames at the head are skipped in full (RFC 9114 §7.2.8, §9)
pub open spec fn skip_unknown(s: Seq<u8>) -> Seq<u8>
    decreases s.len()
{
    if whole_frame(s) && !is_known_type(hdr(s).unwrap().0) && hdr(s).unwrap().2 + hdr(s).unwrap().1 > 0 {
        skip_unknown(s.skip(hdr(s).unwrap().2 + hdr(s).unwrap().1))
    } else { s }
}
pub proof fn lemma_hdr_size(s: Seq<u8>)
    ensures hdr(s) is Some ==> 2 <= hdr(s).unwrap().2 <= 16 && hdr(s).unwrap().2 <= s.len() && hdr(s).unwrap().1 < two62(),
{
    lemma_vdec(s);
    if vdec(s) is Some { lemma_vdec(s.skip(vdec(s).unwrap().1 as int)); }
}
// adding bytes behind a whole frame does not change how its head reads
pub proof fn lemma_hdr_prefix(s: Seq<u8>, t: Seq<u8>)
    ensures hdr(s) is Some ==> hdr(s + t) == hdr(s),
            vdec(s) is Some ==> vdec(s + t) == vdec(s),
{
    lemma_vdec(s);
    lemma_vdec_prefix(s, t);
    if vdec(s) is Some {
        let n1 = vdec(s).unwrap().1 as int;
        assert((s + t).skip(n1) =~= s.skip(n1) + t);
        lemma_vdec_prefix(s.skip(n1), t);
    }
}
// a head that needs more bytes keeps needing them as long as fewer than `frame_need` bytes are buffered
pub proof fn lemma_need_more_extends(s: Seq<u8>, t: Seq<u8>)
    requires head_needs_more(s), vdec(s) is None || vdec(s).unwrap().0 != 0x41, (s + t).len() < frame_need(s),
    ensures head_needs_more(s + t),
{
    lemma_hdr_size(s);
    lemma_hdr_prefix(s, t);
    if hdr(s) is None {
        assert(t.len() == 0);
        assert(s + t =~= s);
    }
}

pub proof fn lemma_wt_type_len(s: Seq<u8>)
    ensures vdec(s) is Some && vdec(s).unwrap().0 >= 64 ==> 2 <= vdec(s).unwrap().1 <= s.len(),
{}
pub proof fn lemma_skip_unknown_idem(s: Seq<u8>)
    ensures skip_unknown(skip_unknown(s)) == skip_unknown(s),
    decreases s.len()
{
    if whole_frame(s) && !is_known_type(hdr(s).unwrap().0) && hdr(s).unwrap().2 + hdr(s).unwrap().1 > 0 {
        lemma_skip_unknown_idem(s.skip(hdr(s).unwrap().2 + hdr(s).unwrap().1));
    }
}
pub proof fn lemma_skip_unknown_suffix(s: Seq<u8>)
    ensures skip_unknown(s).len() <= s.len(), skip_unknown(s) == s.skip(s.len() - skip_unknown(s).len()),
    decreases s.len()
{
    if whole_frame(s) && !is_known_type(hdr(s).unwrap().0) && hdr(s).unwrap().2 + hdr(s).unwrap().1 > 0 {
        let k = hdr(s).unwrap().2 + hdr(s).unwrap().1;
        lemma_skip_unknown_suffix(s.skip(k));
        let r = skip_unknown(s.skip(k));
        assert(s.skip(k).skip(s.skip(k).len() - r.len()) =~= s.skip(s.len() - r.len()));
    } else {
        assert(s.skip(0) =~= s);
    }
}
// bytes arriving later do not change which unknown frames in front are skipped
pub proof fn lemma_skip_unknown_extend(s: Seq<u8>, t: Seq<u8>)
    ensures skip_unknown(s + t) == skip_unknown(skip_unknown(s) + t),
    decreases s.len()
{
    if whole_frame(s) && !is_known_type(hdr(s).unwrap().0) && hdr(s).unwrap().2 + hdr(s).unwrap().1 > 0 {
        let k = hdr(s).unwrap().2 + hdr(s).unwrap().1;
        lemma_hdr_prefix(s, t);
        assert((s + t).skip(k) =~= s.skip(k) + t);
        lemma_skip_unknown_extend(s.skip(k), t);
    }
}


impl FrameDecoder {
    // the `expected` memo never hides a whole frame: with fewer than `min` bytes buffered, whatever arrives later,
    // the head is still incomplete (stated over every extension so that it survives new chunks between two calls)
    pub open spec fn memo_ok(&self, s: Seq<u8>) -> bool {
        match self.expected {
            Some(min) => forall|t: Seq<u8>| #![trigger (s + t)] (s + t).len() < min ==> head_needs_more(s + t),
            None => true,
        }
    }}
