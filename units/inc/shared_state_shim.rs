// ---- shim of the std / futures types inside SharedState + the extracted struct (shared by conn_error and error_scope)
// ------------------------------------------------------------------ shim: std / futures types of SharedState
// std::sync::OnceLock by prophecy (DESIGN §3.3).  `get_or_init`'s second clause ("the value is the caller's unless the
// cell was already set") has no state to refer to through `&self` and is not needed by any obligation.
#[verifier::external_body]
#[verifier::reject_recursive_types(T)]
pub struct OnceLock<T> { inner: std::sync::OnceLock<T> }
impl<T> OnceLock<T> {
    pub uninterp spec fn winner(&self) -> Option<T>;
    /// "a value is in the cell": a stable fact (write-once), so it can be a timeless predicate; it is *provable* only
    /// after a call whose postcondition gives it, which is what orders "store" before "wake" in set_conn_error_and_wake
    pub uninterp spec fn stored(&self) -> bool;
    #[verifier::external_body]
    pub fn get(&self) -> (r: Option<&T>)
        ensures r is Some ==> self.winner() == Some(*r.unwrap()) && self.stored(),
    { self.inner.get() }
    #[verifier::external_body]
    pub fn get_or_init<F: FnOnce() -> T>(&self, f: F) -> (r: &T)
        requires f.requires(()),
        ensures self.winner() == Some(*r), self.stored(),
    { self.inner.get_or_init(f) }
    // `set` can lose against another task at any moment, whatever an earlier `get` answered: Err hands the value back and
    // says nothing about what the cell holds
    #[verifier::external_body]
    pub fn set(&self, value: T) -> (r: Result<(), T>)
        ensures match r { Ok(_) => self.winner() == Some(value) && self.stored(), Err(v) => v == value && self.stored() },
    { self.inner.set(value) }
}
// futures_util::task::AtomicWaker: no observable effect in contracts (this is why wake ordering is not decided)
#[verifier::external_body] pub struct AtomicWaker { x: u8 }
#[verifier::external_type_specification] #[verifier::external_body] pub struct ExWaker(std::task::Waker);
#[verifier::external_type_specification] #[verifier::external_body] pub struct ExContext<'a>(Context<'a>);
#[verifier::external_type_specification] #[verifier::reject_recursive_types(T)] pub struct ExPoll<T>(Poll<T>);
impl AtomicWaker {
    /// "the driver has been woken through this waker": like `stored()` a fact that, once true, stays true for the
    /// purposes of the protocol, and that is *provable* only after a call to `wake` on this path
    pub uninterp spec fn woken(&self) -> bool;
    #[verifier::external_body] pub fn wake(&self) ensures self.woken() { }
    #[verifier::external_body] pub fn register(&self, waker: &std::task::Waker) { }
}
pub assume_specification<'a, 'b> [Context::<'a>::waker] (cx: &'b Context<'a>) -> (r: &'a std::task::Waker);
// std: `impl<T> From<T> for T` is the identity (needed after R16 unfolds `?` into `From::from`)
pub assume_specification<T> [<T as From<T>>::from] (t: T) -> (r: T) ensures r == t;
pub assume_specification [String::as_bytes] (s: &String) -> (r: &[u8]);
#[verifier::external_body] pub struct AtomicBool { x: u8 }
#[verifier::external_body] pub struct Settings { x: u8 }

//@extract h3/src/shared_state.rs :: - :: struct SharedState
//@end
// [C07.shared-fields] the complete list of what request handles and the driver share (no `..`: a new field breaks this
// pattern and the run stops being a pass).  That nothing *else* is shared is Rust ownership — argued, not proved.
proof fn shared_state_field_list(s: SharedState) {
    let SharedState { settings: _, connection_error: _, closing: _, waker: _ } = s;
}

