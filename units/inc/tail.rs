} // verus!
fn main() {}
