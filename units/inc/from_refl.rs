// ---- core's reflexive `impl<T> From<T> for T` is the identity (std documentation); needed because rule R16
// spells every `?` as `Err(e) => return Err(From::from(e))`, including the non-converting ones
pub assume_specification<T>[ <T as core::convert::From<T>>::from ](t: T) -> (r: T) ensures r == t;
