// ---- std::collections::VecDeque::{front, front_mut}: not specified by the installed vstd (assumed)
pub assume_specification<T, A: std::alloc::Allocator> [std::collections::VecDeque::<T, A>::front] (v: &std::collections::VecDeque<T, A>) -> (r: std::option::Option<&T>)
    ensures v@.len() == 0 ==> r is None, v@.len() > 0 ==> r == Some(&v@[0]);

pub assume_specification<T, A: std::alloc::Allocator> [std::collections::VecDeque::<T, A>::front_mut] (v: &mut std::collections::VecDeque<T, A>) -> (r: std::option::Option<&mut T>)
    ensures old(v)@.len() == 0 ==> r is None && final(v)@ == old(v)@,
        old(v)@.len() > 0 ==> r is Some && *r.unwrap() == old(v)@[0] && final(v)@ == old(v)@.update(0, *final(r.unwrap()));
