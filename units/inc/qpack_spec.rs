// ---- spec library: RFC 7541 §5.1 (prefixed integers), §5.2 (string literals), RFC 9204 §4.5 (field section
// prefix, field line representations), RFC 9114 §4.2.2 (field section size).  Written from the RFC text with
// arithmetic (`/`, `%`, `*`) where the code uses shifts and masks.  Everything here is ghost.
pub type SpecField = (Seq<u8>, Seq<u8>);

/// 2^n for the prefix sizes that occur (1..=8).
pub open spec fn p2(n: nat) -> nat {
    if n == 1 { 2 } else if n == 2 { 4 } else if n == 3 { 8 } else if n == 4 { 16 } else if n == 5 { 32 }
    else if n == 6 { 64 } else if n == 7 { 128 } else if n == 8 { 256 } else { 1 }
}

/// RFC 7541 §5.1 (decoding pseudocode, the `repeat … while B & 128 == 128` part): value carried by the
/// continuation octets at the head of `s` (7 bits each, least significant group first) and their number.
pub open spec fn spec_pint_cont(s: Seq<u8>) -> Option<(nat, nat)>
    decreases s.len()
{
    if s.len() == 0 { None }
    else if s[0] < 128 { Some((s[0] as nat, 1nat)) }
    else {
        match spec_pint_cont(s.skip(1)) {
            None => None,
            Some((v, k)) => Some((((s[0] - 128) as nat) + 128 * v, k + 1)),
        }
    }
}

/// Implementation limit allowed by RFC 7541 §5.1 ("integer encodings that exceed implementation limits — in value
/// or octet length — MUST be treated as decoding errors"): the number of continuation octets the decoder accepts.
/// RFC 9204 §4.1.1 demands that 62-bit integers be decodable (9 octets); 10 octets suffice for every u64.  The value
/// is left open between the two so that the contract of `prefix_int::decode` below is true of the pinned code
/// (`MAX_POWER = 9 * 7`: 9 octets — the C15 finding that u64 values needing a tenth octet do not round-trip) and of a
/// repaired one (10 octets, kani/_spec.rs::SPEC_PREFIX_INT_MAX_CONT).
pub uninterp spec fn spec_pint_max_cont() -> nat;
// ASSUMED-FROM-UNIT: kani c15_int_decode_sound / c15_int_decode_top (the limit `prefix_int::decode` implements)
#[verifier::external_body]
pub proof fn axiom_pint_max_cont()
    ensures 9 <= spec_pint_max_cont() <= 10,
{}

/// RFC 7541 §5.1: an integer with an `n`-bit prefix at the head of `s`:
/// `Some((bits above the prefix in the first octet, value, octets used))`; `None` = truncated or oversized.
#[verifier::opaque]
pub open spec fn spec_prefix_int_dec(n: nat, s: Seq<u8>) -> Option<(u8, u64, nat)> {
    if s.len() == 0 { None } else {
        let flags = (s[0] as nat / p2(n)) as u8;
        let i = s[0] as nat % p2(n);
        if i < p2(n) - 1 { Some((flags, i as u64, 1nat)) } else {
            match spec_pint_cont(s.skip(1)) {
                None => None,
                Some((v, k)) => if k > spec_pint_max_cont() || p2(n) - 1 + v > u64::MAX { None } else { Some((flags, (p2(n) - 1 + v) as u64, 1 + k)) },
            }
        }
    }
}

/// RFC 7541 §5.1 (encoding pseudocode, `while I >= 128 …`).
pub open spec fn spec_pint_cont_enc(r: nat) -> Seq<u8>
    decreases r
{
    if r < 128 { seq![r as u8] } else { seq![(r % 128 + 128) as u8] + spec_pint_cont_enc(r / 128) }
}
pub open spec fn spec_prefix_int_enc(n: nat, flags: u8, v: u64) -> Seq<u8> {
    if (v as nat) < p2(n) - 1 { seq![(flags as nat * p2(n) + v as nat) as u8] }
    else { seq![(flags as nat * p2(n) + p2(n) - 1) as u8] + spec_pint_cont_enc((v as nat - (p2(n) - 1)) as nat) }
}

pub open spec fn pow128(d: nat) -> nat decreases d { if d == 0 { 1 } else { 128 * pow128((d - 1) as nat) } }

pub proof fn lemma_pint_cont_bounds(s: Seq<u8>)
    ensures match spec_pint_cont(s) { Some((v, k)) => 1 <= k <= s.len() && v < pow128(k), None => true },
    decreases s.len()
{
    if s.len() > 0 && s[0] >= 128 {
        lemma_pint_cont_bounds(s.skip(1));
        match spec_pint_cont(s.skip(1)) {
            Some((v, k)) => { assert(pow128(k + 1) == 128 * pow128(k)); assert((s[0] - 128) + 128 * v < 128 * pow128(k)) by (nonlinear_arith) requires 0 <= s[0] - 128 < 128, v < pow128(k); }
            None => {}
        }
    } else if s.len() > 0 {
        assert(pow128(1) == 128 * pow128(0));
    }
}

pub proof fn lemma_pow128_9()
    ensures pow128(9) == 0x8000_0000_0000_0000,
{
    reveal_with_fuel(pow128, 10);
}

pub proof fn lemma_pow128_mono(a: nat, b: nat)
    requires a <= b,
    ensures pow128(a) <= pow128(b), pow128(a) >= 1,
    decreases b
{
    if a < b { lemma_pow128_mono(a, (b - 1) as nat); }
    else if a > 0 { lemma_pow128_mono((a - 1) as nat, (b - 1) as nat); }
}

/// The decoded value always fits a u64 (so the `as u64` in the spec never truncates) and at least one octet is used.
pub proof fn lemma_pint_bounds(n: nat, s: Seq<u8>)
    requires 1 <= n <= 8,
    ensures match spec_prefix_int_dec(n, s) {
        Some((f, v, k)) => 1 <= k <= s.len() && k <= 11 && (f as nat) == s[0] as nat / p2(n) && (f as nat) * p2(n) < 256
            && (k == 1 ==> (v as nat) == s[0] as nat % p2(n) && v < p2(n) - 1)
            && (k > 1 ==> spec_pint_cont(s.skip(1)) is Some && (v as nat) == p2(n) - 1 + spec_pint_cont(s.skip(1)).unwrap().0 && k == 1 + spec_pint_cont(s.skip(1)).unwrap().1),
        None => true },
{
    reveal(spec_prefix_int_dec);
    if s.len() > 0 {
        let i = s[0] as nat % p2(n);
        assert((s[0] as nat / p2(n)) * p2(n) <= s[0] as nat) by (nonlinear_arith) requires p2(n) > 0;
        if i >= p2(n) - 1 {
            lemma_pint_cont_bounds(s.skip(1));
            axiom_pint_max_cont();
        }
    }
}

/// Decoding looks only at the octets it uses: extending the input does not change the result.
pub proof fn lemma_pint_cont_ext(a: Seq<u8>, x: Seq<u8>)
    requires spec_pint_cont(a) is Some,
    ensures spec_pint_cont(a + x) == spec_pint_cont(a),
    decreases a.len()
{
    assert((a + x)[0] == a[0]);
    if a[0] >= 128 {
        assert((a + x).skip(1) =~= a.skip(1) + x);
        lemma_pint_cont_ext(a.skip(1), x);
    }
}
pub proof fn lemma_pint_ext(n: nat, a: Seq<u8>, x: Seq<u8>)
    requires spec_prefix_int_dec(n, a) is Some,
    ensures spec_prefix_int_dec(n, a + x) == spec_prefix_int_dec(n, a),
{
    reveal(spec_prefix_int_dec);
    assert((a + x)[0] == a[0]);
    assert((a + x).skip(1) =~= a.skip(1) + x);
    if a[0] as nat % p2(n) >= p2(n) - 1 { lemma_pint_cont_ext(a.skip(1), x); }
}

pub proof fn lemma_pint_cont_roundtrip(r: nat, d: nat)
    requires r < pow128(d),
    ensures spec_pint_cont(spec_pint_cont_enc(r)) == Some((r, spec_pint_cont_enc(r).len())), spec_pint_cont_enc(r).len() <= d || d == 0,
        spec_pint_cont_enc(r).len() >= 1,
    decreases r
{
    let e = spec_pint_cont_enc(r);
    if r >= 128 {
        assert(d >= 2) by { if d <= 1 { reveal_with_fuel(pow128, 3); } }
        assert(r / 128 < pow128((d - 1) as nat)) by (nonlinear_arith) requires r < 128 * pow128((d - 1) as nat);
        lemma_pint_cont_roundtrip(r / 128, (d - 1) as nat);
        assert(e.skip(1) =~= spec_pint_cont_enc(r / 128));
        assert(e[0] == (r % 128 + 128) as u8);
        assert((r % 128) + 128 * (r / 128) == r) by (nonlinear_arith);
    }
}

/// First octet arithmetic: `flags` above an `n`-bit field holding `i`.
pub proof fn lemma_first_octet(n: nat, flags: nat, i: nat)
    requires 1 <= n <= 8, flags * p2(n) < 256, i < p2(n),
    ensures flags * p2(n) + i < 256, (flags * p2(n) + i) / p2(n) == flags, (flags * p2(n) + i) % p2(n) == i,
{
    let p = p2(n);
    let c: nat = if n == 1 { 128 } else if n == 2 { 64 } else if n == 3 { 32 } else if n == 4 { 16 } else if n == 5 { 8 } else if n == 6 { 4 } else if n == 7 { 2 } else { 1 };
    assert(c * p == 256);
    assert(flags < c) by (nonlinear_arith) requires flags * p < 256, c * p == 256, p > 0;
    assert(flags * p + i < 256) by (nonlinear_arith) requires flags + 1 <= c, c * p == 256, i < p;
    vstd::arithmetic::div_mod::lemma_fundamental_div_mod_converse((flags * p + i) as int, p as int, flags as int, i as int);
}
/// RFC 7541 §5.1 round trip on the spec functions, for every value below 2^63 (the known C15 finding — values
/// ≥ 2^63 + 2^n − 1 need a tenth continuation octet — is outside this lemma's precondition on purpose).
pub proof fn lemma_pint_roundtrip(n: nat, flags: u8, v: u64)
    requires 1 <= n <= 8, (flags as nat) * p2(n) < 256, v < 0x8000_0000_0000_0000,
    ensures spec_prefix_int_dec(n, spec_prefix_int_enc(n, flags, v)) == Some((flags, v, spec_prefix_int_enc(n, flags, v).len())),
        1 <= spec_prefix_int_enc(n, flags, v).len() <= 10,
{
    assert(p2(n) <= 256);
    reveal(spec_prefix_int_dec);
    let e = spec_prefix_int_enc(n, flags, v);
    let p = p2(n);
    if (v as nat) < p - 1 {
        lemma_first_octet(n, flags as nat, v as nat);
    } else {
        lemma_first_octet(n, flags as nat, (p - 1) as nat);
        let r = (v as nat - (p - 1)) as nat;
        lemma_pow128_9();
        lemma_pint_cont_roundtrip(r, 9);
        axiom_pint_max_cont();
        assert(e.skip(1) =~= spec_pint_cont_enc(r));
    }
}

// ---- RFC 7541 §5.2 string literals.  The Huffman code itself (RFC 7541 App. B) is abstract here; that the code's
// `hpack_decode` / `hpack_encode` agree with it is C15 (Kani, per symbol + the §5.2 padding rule).
/// Huffman-decode a whole string-data octet sequence (§5.2: padding < 8 bits, all ones, no EOS); `None` = invalid.
pub uninterp spec fn spec_huff_dec(data: Seq<u8>) -> Option<Seq<u8>>;
/// The Huffman encoding of `v` padded with ones to an octet boundary.
pub uninterp spec fn spec_huff_enc(v: Seq<u8>) -> Seq<u8>;
// ASSUMED-FROM-UNIT: kani c15_huffman_roundtrip / c15_huffman_min_code_len (RFC 7541 App. B: the code is prefix-free and its
// shortest code has 5 bits, so n octets decode to at most 8n/5 symbols)
#[verifier::external_body]
pub proof fn axiom_huff(v: Seq<u8>)
    ensures spec_huff_dec(spec_huff_enc(v)) == Some(v),
{}
#[verifier::external_body]
pub proof fn axiom_huff_len(data: Seq<u8>)
    ensures spec_huff_dec(data) matches Some(v) ==> 5 * v.len() <= 8 * data.len(),
{}

/// RFC 7541 §5.2: `H | String Length (n+) | String Data` at the head of `s`, where the length has an `n`-bit prefix.
/// `Some((bits above H in the first octet, the string, octets used))`.
#[verifier::opaque]
pub open spec fn spec_string_literal(n: nat, s: Seq<u8>) -> Option<(u8, Seq<u8>, nat)> {
    match spec_prefix_int_dec(n, s) {
        None => None,
        Some((f, len, k)) =>
            if s.len() - k < len { None } else {
                let data = s.subrange(k as int, k + len as int);
                if f % 2 == 1 {
                    match spec_huff_dec(data) { Some(v) => Some((f / 2, v, k + len as nat)), None => None }
                } else { Some((f / 2, data, k + len as nat)) }
            },
    }
}
/// What an encoder that always chooses Huffman writes (RFC 7541 §5.2 leaves the choice of H to the encoder).
pub open spec fn spec_string_enc(n: nat, flags: u8, v: Seq<u8>) -> Seq<u8> {
    spec_prefix_int_enc(n, (flags * 2 + 1) as u8, spec_huff_enc(v).len() as u64) + spec_huff_enc(v)
}

pub proof fn lemma_string_bounds(n: nat, s: Seq<u8>)
    requires 1 <= n <= 7,
    ensures match spec_string_literal(n, s) {
        Some((f, v, k)) => 1 <= k <= s.len() && v.len() <= 2 * (k - 1) && (f as nat) == s[0] as nat / (2 * p2(n)),
        None => true },
{
    reveal(spec_string_literal);
    lemma_pint_bounds(n, s);
    match spec_prefix_int_dec(n, s) {
        Some((f, len, k)) => {
            if s.len() - k >= len {
                let data = s.subrange(k as int, k + len as int);
                axiom_huff_len(data);
                assert(f as nat == s[0] as nat / p2(n));
                assert((s[0] as nat / p2(n)) / 2 == s[0] as nat / (2 * p2(n))) by (nonlinear_arith) requires p2(n) > 0;
            }
        }
        None => {}
    }
}
pub proof fn lemma_string_ext(n: nat, a: Seq<u8>, x: Seq<u8>)
    requires 1 <= n <= 7, spec_string_literal(n, a) is Some,
    ensures spec_string_literal(n, a + x) == spec_string_literal(n, a),
{
    reveal(spec_string_literal);
    lemma_pint_ext(n, a, x);
    lemma_pint_bounds(n, a);
    let (f, len, k) = spec_prefix_int_dec(n, a).unwrap();
    assert((a + x).subrange(k as int, k + len as int) =~= a.subrange(k as int, k + len as int));
}
pub proof fn lemma_string_roundtrip(n: nat, flags: u8, v: Seq<u8>)
    requires 1 <= n <= 7, (flags as nat) * 2 * p2(n) < 256, spec_huff_enc(v).len() < 0x8000_0000_0000_0000,
    ensures spec_string_literal(n, spec_string_enc(n, flags, v)) == Some((flags, v, spec_string_enc(n, flags, v).len())),
        spec_string_enc(n, flags, v).len() >= 1,
{
    reveal(spec_string_literal);
    let h = spec_huff_enc(v);
    let f2 = (flags * 2 + 1) as u8;
    let p = p2(n);
    let c: nat = if n == 1 { 64 } else if n == 2 { 32 } else if n == 3 { 16 } else if n == 4 { 8 } else if n == 5 { 4 } else if n == 6 { 2 } else { 1 };
    assert(c * 2 * p == 256);
    assert((flags as nat) < c) by (nonlinear_arith) requires (flags as nat) * 2 * p < 256, c * 2 * p == 256, p > 0;
    assert((flags as nat * 2 + 1) * p < 256) by (nonlinear_arith) requires (flags as nat) + 1 <= c, c * 2 * p == 256, p > 0;
    assert(flags * 2 + 1 < 256);
    lemma_pint_roundtrip(n, f2, h.len() as u64);
    let pe = spec_prefix_int_enc(n, f2, h.len() as u64);
    lemma_pint_ext(n, pe, h);
    assert((pe + h).subrange(pe.len() as int, (pe.len() + h.len()) as int) =~= h);
    axiom_huff(v);
    assert(f2 % 2 == 1 && f2 / 2 == flags);
}

// ---- RFC 9204 Appendix A, abstract: `spec_static(i)` is entry `i` of the static table.
pub uninterp spec fn spec_static(i: nat) -> Option<SpecField>;
// ASSUMED-FROM-UNIT: kani c11_static_get_* / c11_static_get_out_of_range over kani/_spec.rs::SPEC_STATIC_TABLE (the table has
// exactly the 99 entries 0..=98 of RFC 9204 App. A; the longest entry, content-security-policy, has 23 + 53 octets)
#[verifier::external_body]
pub proof fn axiom_static(i: nat)
    ensures spec_static(i) is Some <==> i < 99,
        spec_static(i) matches Some((n, v)) ==> n.len() + v.len() <= 100,
{}

// ---- RFC 9204 §4.5.2 – §4.5.6 field line representations (syntax), then their meaning without a dynamic table.
pub enum SpecRepr {
    /// §4.5.2  `1 T Index(6+)`
    Indexed { is_static: bool, index: nat },
    /// §4.5.4  `0 1 N T NameIndex(4+)`, `H ValueLength(7+)`, value
    NameRef { is_static: bool, index: nat, value: Seq<u8> },
    /// §4.5.6  `0 0 1 N H NameLength(3+)`, name, `H ValueLength(7+)`, value
    Literal { name: Seq<u8>, value: Seq<u8> },
    /// §4.5.3 `0 0 0 1 Index(4+)` and §4.5.5 `0 0 0 0 N NameIndex(3+)` — both refer to the dynamic table.
    PostBase,
}

pub open spec fn spec_indexed(s: Seq<u8>) -> Option<(SpecRepr, nat)> {
    match spec_prefix_int_dec(6, s) {
        Some((f, i, k)) => if f / 2 == 1 { Some((SpecRepr::Indexed { is_static: f % 2 == 1, index: i as nat }, k)) } else { None },
        None => None,
    }
}
pub open spec fn spec_name_ref(s: Seq<u8>) -> Option<(SpecRepr, nat)> {
    match spec_prefix_int_dec(4, s) {
        Some((f, i, k1)) => if f / 4 != 1 { None } else {
            match spec_string_literal(7, s.skip(k1 as int)) {
                Some((_, v, k2)) => Some((SpecRepr::NameRef { is_static: f % 2 == 1, index: i as nat, value: v }, k1 + k2)),
                None => None,
            }
        },
        None => None,
    }
}
pub open spec fn spec_literal(s: Seq<u8>) -> Option<(SpecRepr, nat)> {
    match spec_string_literal(3, s) {
        Some((f, name, k1)) => if f / 2 != 1 { None } else {
            match spec_string_literal(7, s.skip(k1 as int)) {
                Some((_, v, k2)) => Some((SpecRepr::Literal { name: name, value: v }, k1 + k2)),
                None => None,
            }
        },
        None => None,
    }
}
/// The representation at the head of `s`, chosen by the leading bits of its first octet (§4.5.2 – §4.5.6; the five
/// patterns 1, 01, 001, 0001, 0000 cover every octet).
#[verifier::opaque]
pub open spec fn spec_repr(s: Seq<u8>) -> Option<(SpecRepr, nat)> {
    if s.len() == 0 { None }
    else if s[0] >= 128 { spec_indexed(s) }
    else if s[0] >= 64 { spec_name_ref(s) }
    else if s[0] >= 32 { spec_literal(s) }
    else { Some((SpecRepr::PostBase, 1nat)) }
}
/// One field line decoded with an empty dynamic table: only static-table and literal representations are valid.
#[verifier::opaque]
pub open spec fn spec_field_line(s: Seq<u8>) -> Option<(SpecField, nat)> {
    match spec_repr(s) {
        Some((SpecRepr::Indexed { is_static: true, index }, k)) => match spec_static(index) { Some(f) => Some((f, k)), None => None },
        Some((SpecRepr::NameRef { is_static: true, index, value }, k)) => match spec_static(index) { Some(f) => Some(((f.0, value), k)), None => None },
        Some((SpecRepr::Literal { name, value }, k)) => Some(((name, value), k)),
        _ => None,
    }
}

/// RFC 9114 §4.2.2: the size of a field section.
pub open spec fn spec_field_size(f: SpecField) -> nat { f.0.len() + f.1.len() + 32 }
pub open spec fn spec_section_size(fs: Seq<SpecField>) -> nat
    decreases fs.len()
{
    if fs.len() == 0 { 0 } else { spec_section_size(fs.drop_last()) + spec_field_size(fs.last()) }
}

/// The encoded field lines `s` (after the prefix), decoded line by line until the input is used up.
pub open spec fn spec_lines(s: Seq<u8>) -> Option<Seq<SpecField>>
    decreases s.len()
{
    if s.len() == 0 { Some(Seq::empty()) } else {
        match spec_field_line(s) {
            None => None,
            Some((f, k)) => if k == 0 || k > s.len() { None } else {
                match spec_lines(s.skip(k as int)) { Some(fs) => Some(seq![f] + fs), None => None }
            },
        }
    }
}

/// RFC 9204 §4.5.1 Encoded Field Section Prefix, syntax: `Required Insert Count (8+)`, then `S | Delta Base (7+)`.
/// `Some((encoded required insert count, S, delta base, octets used))`.
pub open spec fn spec_section_prefix_syntax(s: Seq<u8>) -> Option<(u64, u8, u64, nat)> {
    match spec_prefix_int_dec(8, s) {
        Some((_, ric, k1)) => match spec_prefix_int_dec(7, s.skip(k1 as int)) {
            Some((sign, delta, k2)) => Some((ric, sign, delta, k1 + k2)),
            None => None,
        },
        None => None,
    }
}
/// The prefix as seen by a decoder whose dynamic table capacity is 0:
/// Required Insert Count must be 0 (§4.5.1.1: a non-zero encoded count exceeds FullRange = 2·MaxEntries = 0), and S
/// must be 0 (§4.5.1.2: "An endpoint MUST treat a field block with a Sign bit of 1 as invalid if the value of
/// Required Insert Count is less than or equal to the value of Delta Base").  With S = 0 any Delta Base is valid
/// (§4.5.1.2: "a field section that was encoded without references to the dynamic table can use any value for
/// the Base").  `Some(octets used)`.
pub open spec fn spec_section_prefix(s: Seq<u8>) -> Option<nat> {
    match spec_section_prefix_syntax(s) {
        Some((ric, sign, _delta, k)) => if ric != 0 || sign != 0 { None } else { Some(k) },
        None => None,
    }
}

/// The whole field section without a size limit: `Some(fields in order)` iff `s` is a valid RFC 9204 encoding that
/// needs no dynamic table.
pub open spec fn spec_field_section_nolimit(s: Seq<u8>) -> Option<Seq<SpecField>> {
    match spec_section_prefix(s) { Some(k) => spec_lines(s.skip(k as int)), None => None }
}

pub enum SpecSection {
    Fields(Seq<SpecField>),
    /// the running size first exceeded the limit after some line; carries that running size
    TooLong(nat),
    Invalid,
}
pub open spec fn spec_prepend(done: Seq<SpecField>, x: SpecSection) -> SpecSection {
    match x { SpecSection::Fields(fs) => SpecSection::Fields(done + fs), o => o }
}
/// Line-by-line decoding with the RFC 9114 §4.2.2 running size `acc` checked against `max` after every line.
pub open spec fn spec_lines_limited(s: Seq<u8>, acc: nat, max: nat) -> SpecSection
    decreases s.len()
{
    if s.len() == 0 { SpecSection::Fields(Seq::empty()) } else {
        match spec_field_line(s) {
            None => SpecSection::Invalid,
            Some((f, k)) => if k == 0 || k > s.len() { SpecSection::Invalid }
                else if acc + spec_field_size(f) > max { SpecSection::TooLong(acc + spec_field_size(f)) }
                else { spec_prepend(seq![f], spec_lines_limited(s.skip(k as int), acc + spec_field_size(f), max)) },
        }
    }
}
/// What a receiver with limit `max` does with the field section `s`.
pub open spec fn spec_field_section(s: Seq<u8>, max: nat) -> SpecSection {
    match spec_section_prefix(s) { Some(k) => spec_lines_limited(s.skip(k as int), 0, max), None => SpecSection::Invalid }
}

// ---- lemmas about the field-line and section specs
pub proof fn lemma_repr_bounds(s: Seq<u8>)
    ensures match spec_repr(s) { Some((_, k)) => 1 <= k <= s.len(), None => true },
{
    reveal(spec_repr);
    if s.len() > 0 {
        lemma_pint_bounds(6, s);
        lemma_pint_bounds(4, s);
        lemma_string_bounds(3, s);
        match spec_prefix_int_dec(4, s) { Some((_, _, k1)) => { lemma_string_bounds(7, s.skip(k1 as int)); } None => {} }
        match spec_string_literal(3, s) { Some((_, _, k1)) => { lemma_string_bounds(7, s.skip(k1 as int)); } None => {} }
    }
}
/// `spec_field_line` by the first octet, in terms of the three per-representation parsers (what the code's dispatcher does).
pub proof fn lemma_line_cases(s: Seq<u8>)
    requires s.len() > 0,
    ensures spec_field_line(s) == (
        if s[0] >= 128 {
            match spec_indexed(s) {
                Some((SpecRepr::Indexed { is_static: true, index }, k)) => match spec_static(index) { Some(f) => Some((f, k)), None => None },
                _ => None }
        } else if s[0] >= 64 {
            match spec_name_ref(s) {
                Some((SpecRepr::NameRef { is_static: true, index, value }, k)) => match spec_static(index) { Some(f) => Some(((f.0, value), k)), None => None },
                _ => None }
        } else if s[0] >= 32 {
            match spec_literal(s) { Some((SpecRepr::Literal { name, value }, k)) => Some(((name, value), k)), _ => None }
        } else { None }),
{
    reveal(spec_field_line);
    reveal(spec_repr);
}
/// A line of k octets yields a field of RFC 9114 size at most 140·k: 32 + a static entry (≤ 100) + at most 2 decoded
/// octets per encoded octet (shortest Huffman code: 5 bits).
pub proof fn lemma_line_size_bound(s: Seq<u8>)
    ensures match spec_field_line(s) { Some((f, k)) => 1 <= k <= s.len() && spec_field_size(f) <= 140 * k, None => true },
{
    reveal(spec_repr);
    reveal(spec_field_line);
    lemma_repr_bounds(s);
    if s.len() > 0 {
        lemma_pint_bounds(4, s);
        lemma_string_bounds(3, s);
        match spec_prefix_int_dec(4, s) { Some((_, _, k1)) => { lemma_string_bounds(7, s.skip(k1 as int)); } None => {} }
        match spec_string_literal(3, s) { Some((_, _, k1)) => { lemma_string_bounds(7, s.skip(k1 as int)); } None => {} }
        match spec_repr(s) {
            Some((SpecRepr::Indexed { is_static, index }, k)) => { axiom_static(index); }
            Some((SpecRepr::NameRef { is_static, index, value }, k)) => { axiom_static(index); }
            _ => {}
        }
    }
}
/// A representation is determined by the octets it uses.
pub proof fn lemma_repr_ext(a: Seq<u8>, x: Seq<u8>)
    requires spec_repr(a) is Some,
    ensures spec_repr(a + x) == spec_repr(a),
{
    reveal(spec_repr);
    assert((a + x)[0] == a[0]);
    if a[0] >= 128 { lemma_pint_ext(6, a, x); }
    else if a[0] >= 64 {
        lemma_pint_ext(4, a, x);
        lemma_pint_bounds(4, a);
        let k1 = spec_prefix_int_dec(4, a).unwrap().2;
        assert((a + x).skip(k1 as int) =~= a.skip(k1 as int) + x);
        lemma_string_ext(7, a.skip(k1 as int), x);
    } else if a[0] >= 32 {
        lemma_string_ext(3, a, x);
        lemma_string_bounds(3, a);
        let k1 = spec_string_literal(3, a).unwrap().2;
        assert((a + x).skip(k1 as int) =~= a.skip(k1 as int) + x);
        lemma_string_ext(7, a.skip(k1 as int), x);
    }
}
pub proof fn lemma_line_ext(a: Seq<u8>, x: Seq<u8>)
    requires spec_field_line(a) is Some,
    ensures spec_field_line(a + x) == spec_field_line(a),
{
    reveal(spec_field_line);
    lemma_repr_ext(a, x);
}
/// Appending one complete line to a valid sequence of lines appends its field.
pub proof fn lemma_lines_append(body: Seq<u8>, line: Seq<u8>, f: SpecField)
    requires spec_lines(body) is Some, spec_field_line(line) == Some((f, line.len())), line.len() > 0,
    ensures spec_lines(body + line) == Some(spec_lines(body).unwrap().push(f)),
    decreases body.len()
{
    if body.len() == 0 {
        assert(body + line =~= line);
        assert(line.skip(line.len() as int) =~= Seq::<u8>::empty());
        assert(spec_lines(line.skip(line.len() as int)) == Some(Seq::<SpecField>::empty()));
        assert(spec_lines(body) == Some(Seq::<SpecField>::empty()));
        assert(seq![f] + Seq::<SpecField>::empty() =~= Seq::<SpecField>::empty().push(f));
        assert(spec_lines(line) == Some(seq![f] + Seq::<SpecField>::empty()));
    } else {
        let (f1, k1) = spec_field_line(body).unwrap();
        let fs1 = spec_lines(body.skip(k1 as int)).unwrap();
        assert(spec_lines(body) == Some(seq![f1] + fs1));
        lemma_line_ext(body, line);
        assert((body + line).skip(k1 as int) =~= body.skip(k1 as int) + line);
        lemma_lines_append(body.skip(k1 as int), line, f);
        assert(spec_lines((body + line).skip(k1 as int)) == Some(fs1.push(f)));
        assert(seq![f1] + fs1.push(f) =~= (seq![f1] + fs1).push(f));
        assert(spec_lines(body + line) == Some(seq![f1] + fs1.push(f)));
    }
}

// the three representations the stateless encoder chooses between decode to the field they were built from
pub proof fn lemma_enc_indexed(index: u64, f: SpecField)
    requires spec_static(index as nat) == Some(f),
    ensures ({ let e = spec_prefix_int_enc(6, 3, index); spec_field_line(e) == Some((f, e.len())) && e.len() > 0 }),
{
    reveal(spec_repr);
    reveal(spec_field_line);
    axiom_static(index as nat);
    let e = spec_prefix_int_enc(6, 3, index);
    assert(p2(6) == 64);
    lemma_pint_roundtrip(6, 3, index);
    lemma_pint_bounds(6, e);
}
pub proof fn lemma_enc_name_ref(index: u64, name: Seq<u8>, old_value: Seq<u8>, value: Seq<u8>)
    requires spec_static(index as nat) == Some((name, old_value)), spec_huff_enc(value).len() < 0x8000_0000_0000_0000,
    ensures ({ let e = spec_prefix_int_enc(4, 5, index) + spec_string_enc(7, 0, value); spec_field_line(e) == Some(((name, value), e.len())) && e.len() > 0 }),
{
    reveal(spec_repr);
    reveal(spec_field_line);
    axiom_static(index as nat);
    let e1 = spec_prefix_int_enc(4, 5, index);
    let e2 = spec_string_enc(7, 0, value);
    assert(p2(4) == 16 && p2(7) == 128);
    lemma_pint_roundtrip(4, 5, index);
    lemma_pint_bounds(4, e1);
    lemma_pint_ext(4, e1, e2);
    assert((e1 + e2).skip(e1.len() as int) =~= e2);
    lemma_string_roundtrip(7, 0, value);
    assert((e1 + e2)[0] == e1[0]);
}
pub proof fn lemma_enc_literal(name: Seq<u8>, value: Seq<u8>)
    requires spec_huff_enc(name).len() < 0x8000_0000_0000_0000, spec_huff_enc(value).len() < 0x8000_0000_0000_0000,
    ensures ({ let e = spec_string_enc(3, 2, name) + spec_string_enc(7, 0, value); spec_field_line(e) == Some(((name, value), e.len())) && e.len() > 0 }),
{
    reveal(spec_repr);
    reveal(spec_field_line);
    let e1 = spec_string_enc(3, 2, name);
    let e2 = spec_string_enc(7, 0, value);
    assert(p2(3) == 8 && p2(7) == 128);
    lemma_string_roundtrip(3, 2, name);
    lemma_string_bounds(3, e1);
    lemma_string_ext(3, e1, e2);
    assert((e1 + e2).skip(e1.len() as int) =~= e2);
    lemma_string_roundtrip(7, 0, value);
    assert((e1 + e2)[0] == e1[0]);
}
/// The prefix a stateless encoder writes: Required Insert Count 0, S 0, Delta Base 0.
pub proof fn lemma_enc_prefix(body: Seq<u8>)
    ensures spec_section_prefix(spec_prefix_int_enc(8, 0, 0) + spec_prefix_int_enc(7, 0, 0) + body) == Some(2nat),
        (spec_prefix_int_enc(8, 0, 0) + spec_prefix_int_enc(7, 0, 0) + body).skip(2) == body,
{
    reveal(spec_prefix_int_dec);
    let e = spec_prefix_int_enc(8, 0, 0) + spec_prefix_int_enc(7, 0, 0) + body;
    assert(p2(8) == 256 && p2(7) == 128);
    assert(e[0] == 0 && e[1] == 0);
    assert(e.skip(1)[0] == 0);
    assert(e.skip(2) =~= body);
}

pub proof fn lemma_section_size_push(fs: Seq<SpecField>, f: SpecField)
    ensures spec_section_size(fs.push(f)) == spec_section_size(fs) + spec_field_size(f),
{
    assert(fs.push(f).drop_last() =~= fs);
}
pub proof fn lemma_section_size_prefix(fs: Seq<SpecField>, n: int)
    requires 0 <= n <= fs.len(),
    ensures spec_section_size(fs.take(n)) <= spec_section_size(fs),
    decreases fs.len()
{
    if n < fs.len() {
        assert(fs.drop_last().take(n) =~= fs.take(n));
        lemma_section_size_prefix(fs.drop_last(), n);
    } else {
        assert(fs.take(n) =~= fs);
    }
}
pub proof fn lemma_section_size_cons(f: SpecField, fs: Seq<SpecField>)
    ensures spec_section_size(seq![f] + fs) == spec_field_size(f) + spec_section_size(fs),
    decreases fs.len()
{
    if fs.len() == 0 {
        assert(seq![f] + fs =~= seq![f]);
        assert(seq![f].drop_last() =~= Seq::<SpecField>::empty());
        assert(seq![f].last() == f);
        assert(spec_section_size(Seq::<SpecField>::empty()) == 0);
        assert(spec_section_size(seq![f]) == spec_section_size(seq![f].drop_last()) + spec_field_size(seq![f].last()));
    } else {
        assert((seq![f] + fs).drop_last() =~= seq![f] + fs.drop_last());
        lemma_section_size_cons(f, fs.drop_last());
    }
}

/// What the limit means, in terms of the limit-free RFC 9204 decoding: a section is accepted under `max` exactly
/// when it is a valid encoding and its RFC 9114 §4.2.2 size (added to `acc`) does not exceed `max`.
pub proof fn lemma_lines_limited_accept(s: Seq<u8>, acc: nat, max: nat, fs: Seq<SpecField>)
    requires acc <= max,
    ensures spec_lines_limited(s, acc, max) == SpecSection::Fields(fs) <==> (spec_lines(s) == Some(fs) && acc + spec_section_size(fs) <= max),
    decreases s.len()
{
    if s.len() == 0 {
        if spec_lines(s) == Some(fs) { assert(fs.len() == 0); }
    } else {
        match spec_field_line(s) {
            None => {}
            Some((f, k)) => {
                if k == 0 || k > s.len() {
                } else {
                    let rest = s.skip(k as int);
                    if acc + spec_field_size(f) > max {
                        if spec_lines(s) == Some(fs) {
                            let fs1 = spec_lines(rest).unwrap();
                            lemma_section_size_cons(f, fs1);
                        }
                    } else {
                        if fs.len() > 0 && fs[0] == f {
                            let fs1 = fs.skip(1);
                            assert(fs =~= seq![f] + fs1);
                            lemma_section_size_cons(f, fs1);
                            lemma_lines_limited_accept(rest, acc + spec_field_size(f), max, fs1);
                            // both directions go through `fs == [f] + fs1`
                            match spec_lines_limited(rest, acc + spec_field_size(f), max) {
                                SpecSection::Fields(x) => { if seq![f] + x == fs { assert(x =~= fs1); } }
                                _ => {}
                            }
                            match spec_lines(rest) {
                                Some(x) => { if seq![f] + x == fs { assert(x =~= fs1); } }
                                None => {}
                            }
                        } else {
                            match spec_lines_limited(rest, acc + spec_field_size(f), max) {
                                SpecSection::Fields(x) => { assert((seq![f] + x)[0] == f); }
                                _ => {}
                            }
                            match spec_lines(rest) {
                                Some(x) => { assert((seq![f] + x)[0] == f); }
                                None => {}
                            }
                        }
                    }
                }
            }
        }
    }
}
/// [C10] meaning of `Fields`: accepted exactly when valid and within the limit (size == limit accepted, limit + 1 refused).
pub proof fn lemma_section_accept(s: Seq<u8>, max: nat, fs: Seq<SpecField>)
    ensures spec_field_section(s, max) == SpecSection::Fields(fs) <==> (spec_field_section_nolimit(s) == Some(fs) && spec_section_size(fs) <= max),
{
    match spec_section_prefix(s) {
        Some(k) => { lemma_lines_limited_accept(s.skip(k as int), 0, max, fs); }
        None => {}
    }
}
/// the first `p.len()` lines of `s` decode to `p`
pub open spec fn spec_lines_prefix(s: Seq<u8>, p: Seq<SpecField>) -> bool
    decreases p.len()
{
    if p.len() == 0 { true } else {
        match spec_field_line(s) {
            Some((f, k)) => 0 < k <= s.len() && f == p[0] && spec_lines_prefix(s.skip(k as int), p.skip(1)),
            None => false,
        }
    }
}
/// [C10] meaning of `TooLong(n)`: some non-empty prefix `p` of the decoded field list has size n > max, and every
/// shorter prefix is within the limit.
pub proof fn lemma_lines_limited_too_long(s: Seq<u8>, acc: nat, max: nat, n: nat) -> (p: Seq<SpecField>)
    requires spec_lines_limited(s, acc, max) == SpecSection::TooLong(n), acc <= max,
    ensures p.len() > 0, spec_lines_prefix(s, p), n == acc + spec_section_size(p), n > max, acc + spec_section_size(p.drop_last()) <= max,
    decreases s.len()
{
    let (f, k) = spec_field_line(s).unwrap();
    if acc + spec_field_size(f) > max {
        let p = seq![f];
        assert(p.skip(1) =~= Seq::<SpecField>::empty());
        assert(p.drop_last() =~= Seq::<SpecField>::empty());
        lemma_section_size_push(Seq::<SpecField>::empty(), f);
        assert(Seq::<SpecField>::empty().push(f) =~= p);
        assert(spec_lines_prefix(s.skip(k as int), p.skip(1)));
        p
    } else {
        let p1 = lemma_lines_limited_too_long(s.skip(k as int), acc + spec_field_size(f), max, n);
        let p = seq![f] + p1;
        assert(p.skip(1) =~= p1);
        lemma_section_size_cons(f, p1);
        assert(p.drop_last() =~= seq![f] + p1.drop_last());
        lemma_section_size_cons(f, p1.drop_last());
        p
    }
}

/// Sanity checks of the spec itself on the inputs named in DESIGN §4 C11 (`d1` = indexed static 17, `:method GET`).
pub proof fn lemma_spec_examples(max: nat)
    ensures
        spec_section_prefix(seq![0x00u8, 0x00u8, 0xd1u8]) == Some(2nat),
        spec_section_prefix(seq![0x00u8, 0x05u8, 0xd1u8]) == Some(2nat),     // S = 0, Delta Base 5: valid (any Base without references)
        spec_field_section(seq![0x05u8, 0x00u8, 0xd1u8], max) is Invalid,     // Required Insert Count != 0
        spec_field_section(seq![0x00u8, 0x80u8, 0xd1u8], max) is Invalid,     // S = 1 with Required Insert Count 0: negative Base
        spec_repr(seq![0xd1u8]) == Some((SpecRepr::Indexed { is_static: true, index: 17 }, 1nat)),
        spec_field_line(seq![0x91u8]) is None,                                // indexed, T = 0: dynamic table
        spec_field_line(seq![0x10u8]) is None,                                // post-base index
        spec_field_line(seq![0xffu8, 0x24u8]) is None,                        // static index 63 + 36 = 99: out of range
        spec_field_line(seq![0xffu8]) is None,                                // truncated integer
{
    reveal(spec_prefix_int_dec);
    reveal(spec_repr);
    reveal(spec_field_line);
    assert(p2(8) == 256 && p2(7) == 128 && p2(6) == 64);
    let a = seq![0x00u8, 0x00u8, 0xd1u8];
    assert(a[0] == 0 && a.skip(1)[0] == 0);
    let b = seq![0x00u8, 0x05u8, 0xd1u8];
    assert(b[0] == 0 && b.skip(1)[0] == 5);
    let c = seq![0x05u8, 0x00u8, 0xd1u8];
    assert(c[0] == 5);
    let d = seq![0x00u8, 0x80u8, 0xd1u8];
    assert(d[0] == 0 && d.skip(1)[0] == 0x80);
    assert(seq![0xd1u8][0] == 0xd1);
    assert(seq![0x91u8][0] == 0x91);
    assert(seq![0x10u8][0] == 0x10);
    let e = seq![0xffu8, 0x24u8];
    assert(e[0] == 0xff && e.skip(1)[0] == 0x24 && e.skip(1).len() == 1);
    axiom_static(99);
    let f = seq![0xffu8];
    assert(f[0] == 0xff && f.skip(1).len() == 0);
}
