// ---- h3 error types, conversions and the C05/C07 vocabulary (shared by units conn_error and error_scope).
// Needs: inc/head.rs, inc/codes.rs, `use std::sync::Arc;`, `shim_msg()`.
// ------------------------------------------------------------------ error types taken from /repo
// `dyn A + B + C` is not accepted by Verus: the payload of the catch-all variant becomes an opaque shim type
#[verifier::external_body] pub struct DynError { x: u8 }
//@extract h3/src/quic.rs :: - :: enum ConnectionErrorIncoming
//@subst "Arc<dyn std::error::Error + Send + Sync>" => "Arc<DynError>"
//@end
//@extract h3/src/quic.rs :: - :: enum StreamErrorIncoming
//@subst "Box<dyn std::error::Error + Send + Sync>" => "Box<DynError>"
//@end
//@extract h3/src/error/internal_error.rs :: - :: struct InternalConnectionError
//@end
//@extract h3/src/error/internal_error.rs :: - :: enum ErrorOrigin
//@end
//@extract h3/src/error/error.rs :: - :: enum ConnectionError
//@end
//@extract h3/src/error/error.rs :: - :: enum LocalError
//@end
//@extract h3/src/error/error.rs :: - :: enum StreamError
//@subst "Box<dyn std::error::Error + Send + Sync>" => "Box<DynError>"
//@end

// derived `Clone` has no Verus spec: assumed to return an equal value (true of #[derive(Clone)]; `Arc::clone` of the
// `Undefined` payload is the same allocation)
impl Clone for InternalConnectionError { #[verifier::external_body] fn clone(&self) -> (r: Self) ensures r == *self { unimplemented!() } }
impl Clone for ConnectionErrorIncoming { #[verifier::external_body] fn clone(&self) -> (r: Self) ensures r == *self { unimplemented!() } }
impl Clone for ErrorOrigin { #[verifier::external_body] fn clone(&self) -> (r: Self) ensures r == *self { unimplemented!() } }
impl Clone for LocalError { #[verifier::external_body] fn clone(&self) -> (r: Self) ensures r == *self { unimplemented!() } }
impl Clone for ConnectionError { #[verifier::external_body] fn clone(&self) -> (r: Self) ensures r == *self { unimplemented!() } }

// vstd's `From` contract is `obeys_from_spec() ==> r == from_spec(v)`: the spec side of the two ErrorOrigin conversions (ghost),
// checked against the extracted exec bodies below
impl vstd::std_specs::convert::FromSpecImpl<InternalConnectionError> for ErrorOrigin {
    open spec fn obeys_from_spec() -> bool { true }
    open spec fn from_spec(v: InternalConnectionError) -> Self { ErrorOrigin::Internal(v) }
}
impl vstd::std_specs::convert::FromSpecImpl<ConnectionErrorIncoming> for ErrorOrigin {
    open spec fn obeys_from_spec() -> bool { true }
    open spec fn from_spec(v: ConnectionErrorIncoming) -> Self { ErrorOrigin::Quic(v) }
}
// `impl From<u64> for Code`: this Verus build loses the `FromSpecImpl` definitions for `Code` as soon as `Code::from` is
// called from a default method of a trait that has a supertrait (CloseStream: ConnectionState) — minimal reproduction in
// conn_error.mutants.md.  The one-line body is therefore verified under its contract as the renamed copy
// `Code::vp_from_u64` (same source text, same contract), and the trait-impl copy is external_body with that contract.
impl From<u64> for Code {
//@extract h3/src/error/codes.rs :: impl From<u64> for Code :: fn from
//@external_body
//@attr #[verifier::external_body]
//@ret r
//@sig
        ensures r.code == code,
//@end
}
impl Code {
//@extract h3/src/error/codes.rs :: impl From<u64> for Code :: fn from
//@rename vp_from_u64
//@tag C07
//@ret r
//@sig
        ensures r.code == code,
//@end
}
impl InternalConnectionError {
//@extract h3/src/error/internal_error.rs :: impl InternalConnectionError :: fn new
//@tag C05
//@ret r
//@sig
        ensures r.code == code, r.message == message,
//@end
}
impl From<InternalConnectionError> for ErrorOrigin {
//@extract h3/src/error/internal_error.rs :: impl From<InternalConnectionError> for ErrorOrigin :: fn from
//@tag C05
//@ret r
//@sig
        ensures r == ErrorOrigin::Internal(error), // [C05.conv.from]
//@end
}
impl From<ConnectionErrorIncoming> for ErrorOrigin {
//@extract h3/src/error/internal_error.rs :: impl From<ConnectionErrorIncoming> for ErrorOrigin :: fn from
//@tag C05
//@ret r
//@sig
        ensures r == ErrorOrigin::Quic(error), // [C05.conv.from]
//@end
}

// ------------------------------------------------------------------ spec: the statement's vocabulary
/// what every handle reports for a given content of the cell
pub open spec fn conv(e: ErrorOrigin) -> ConnectionError {
    match e {
        ErrorOrigin::Internal(i) => ConnectionError::Local { error: LocalError::Application { code: i.code, reason: i.message } },
        ErrorOrigin::Quic(ConnectionErrorIncoming::Timeout) => ConnectionError::Timeout,
        ErrorOrigin::Quic(c) => ConnectionError::Remote(c),
    }
}
/// "h3 itself detected it": the errors for which h3 closes the transport, and the code it must use
/// (an h3-level error carries its own code; a failure inside the transport adapter is H3_INTERNAL_ERROR, quic.rs doc of
/// `ConnectionErrorIncoming::InternalError`).  Remote close, timeout and transport-defined errors: the connection is
/// already gone, h3 must not close it.
pub open spec fn close_code(e: ErrorOrigin) -> Option<Code> {
    match e {
        ErrorOrigin::Internal(i) => Some(i.code),
        ErrorOrigin::Quic(ConnectionErrorIncoming::InternalError(_)) => Some(Code { code: 0x102 }),
        ErrorOrigin::Quic(_) => None,
    }
}
pub open spec fn closes_for(w: Option<ErrorOrigin>) -> Seq<Code> {
    match w { Some(e) => match close_code(e) { Some(c) => seq![c], None => Seq::<Code>::empty() }, None => Seq::<Code>::empty() }
}

// the one conversion table every handle uses
//@extract h3/src/error/connection_error_creators.rs :: - :: fn convert_to_connection_error
//@tag C05 C06
//@ret r
//@sig
    ensures r == conv(error), // [C05.conv]
//@end

