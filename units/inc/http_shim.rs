// ---- ASSUMED contracts of the `http` crate (Cargo.lock pins http 1.5.0) and of the few std items below it.
// Nothing in this file is verified.  Every exec fn is `external_body`; every `axiom_…` is an assumption about a type
// invariant of the real crate.  The byte-level predicates are *definitions* (open spec fns) so that the unit's
// postconditions say concretely which bytes pass; the assumption is that the real parser agrees with them.
// Sources: http 1.5.0 docs + src (header/name.rs `HEADER_CHARS_H2`, header/value.rs `is_valid`, header/map.rs,
// method.rs, status.rs, uri/{mod,builder,authority,path,scheme}.rs).

// ===== std::convert::AsRef<[u8]> (local stand-in for the prelude trait; only `AsRef<[u8]>` is used by the unit) =====
pub trait BytesView { spec fn bview(&self) -> Seq<u8>; }
impl BytesView for [u8] { open spec fn bview(&self) -> Seq<u8> { self@ } }
pub trait AsRef<T: ?Sized + BytesView> {
    spec fn ref_bytes(&self) -> Seq<u8>;
    fn as_ref(&self) -> (r: &T)
        ensures r.bview() == self.ref_bytes();
}
impl<'a> AsRef<[u8]> for &'a [u8] {
    open spec fn ref_bytes(&self) -> Seq<u8> { (*self)@ }
    fn as_ref(&self) -> (r: &[u8]) { *self }
}
impl<'a> AsRef<[u8]> for &'a str {
    open spec fn ref_bytes(&self) -> Seq<u8> { (*self).spec_bytes() }
    fn as_ref(&self) -> (r: &[u8]) { (*self).as_bytes() }
}
// std::borrow::Cow<'static, [u8]>: opaque owner of a byte string
#[verifier::external_body]
#[verifier::reject_recursive_types(B)]
pub struct Cow<'a, B: ?Sized + 'a> { p: std::marker::PhantomData<&'a B> }
impl<'a> Cow<'a, [u8]> { pub uninterp spec fn bytes(&self) -> Seq<u8>; }
impl<'a> AsRef<[u8]> for Cow<'a, [u8]> {
    open spec fn ref_bytes(&self) -> Seq<u8> { self.bytes() }
    #[verifier::external_body] fn as_ref(&self) -> (r: &[u8]) { unimplemented!() }
}
// for every byte string there is a Cow holding it (used only to give `HeaderField::from` a functional spec)
pub uninterp spec fn spec_cow(b: Seq<u8>) -> Cow<'static, [u8]>;

// std::str::from_utf8 (no vstd spec): Ok exactly on well-formed UTF-8, and then the str is those bytes
pub uninterp spec fn spec_is_utf8(s: Seq<u8>) -> bool;
#[verifier::external_type_specification]
#[verifier::external_body]
pub struct ExUtf8Error(std::str::Utf8Error);
pub assume_specification<'a> [std::str::from_utf8] (v: &'a [u8]) -> (r: Result<&'a str, std::str::Utf8Error>)
    ensures r is Ok <==> spec_is_utf8(v@),
        r is Ok ==> r->Ok_0.spec_bytes() == v@;
pub assume_specification<T> [std::option::Option::<T>::or] (a: Option<T>, b: Option<T>) -> (r: Option<T>)
    ensures r == (if a is Some { a } else { b });
pub assume_specification<T: PartialEq> [<[T]>::contains] (s: &[T], x: &T) -> (r: bool)
    ensures r == s@.contains(*x);
pub assume_specification<'a, T: Copy> [std::option::Option::<&'a T>::copied] (a: Option<&'a T>) -> (r: Option<T>)
    ensures r == (match a { Some(x) => Some(*x), None => None::<T> });

// std::str::FromStr (local stand-in): parsing is a deterministic partial function of the bytes
pub trait FromStr: Sized {
    type Err;
    spec fn spec_from(s: Seq<u8>) -> Option<Self>;
    fn from_str(s: &str) -> (r: Result<Self, Self::Err>)
        ensures r is Ok <==> Self::spec_from(s.spec_bytes()) is Some,
            r is Ok ==> Some(r->Ok_0) == Self::spec_from(s.spec_bytes());
}

// ===== byte classes =====
// RFC 9110 §5.6.2 tchar, without the uppercase letters (RFC 9114 §4.2: field names are lowercase)
pub open spec fn spec_is_tchar_lower(b: u8) -> bool {
    ||| b == 0x21 ||| (0x23 <= b && b <= 0x27) ||| b == 0x2a ||| b == 0x2b ||| b == 0x2d ||| b == 0x2e
    ||| (0x30 <= b && b <= 0x39) ||| (0x5e <= b && b <= 0x7a) ||| b == 0x7c ||| b == 0x7e
}
pub open spec fn spec_is_lowercase_token(s: Seq<u8>) -> bool {
    s.len() > 0 && forall|i: int| 0 <= i < s.len() ==> spec_is_tchar_lower(#[trigger] s[i])
}
// What http 1.5.0 `HeaderName::from_lowercase` REALLY accepts: its table HEADER_CHARS_H2 (header/name.rs:1043) has a
// non-zero entry for 0x22 (DQUOTE), which is not a tchar.  The documented contract ("lowercase HTTP/2 header name") is
// `spec_is_lowercase_token`; the true one is this.  The difference is reported as a finding; see units/headers.rs.in.
pub open spec fn spec_is_http_name_byte(b: u8) -> bool { spec_is_tchar_lower(b) || b == 0x22 }
pub open spec fn spec_is_http_name(s: Seq<u8>) -> bool {
    s.len() > 0 && forall|i: int| 0 <= i < s.len() ==> spec_is_http_name_byte(#[trigger] s[i])
}
// http header/value.rs `is_valid`: b >= 32 && b != 127 || b == '\t'   (no CR, LF, NUL, other CTLs, DEL)
pub open spec fn spec_is_value_byte(b: u8) -> bool { (b >= 32 && b != 127) || b == 9 }
pub open spec fn spec_is_field_value(s: Seq<u8>) -> bool {
    forall|i: int| 0 <= i < s.len() ==> spec_is_value_byte(#[trigger] s[i])
}
// http status.rs `from_bytes`: exactly three ASCII digits, the first not '0'
pub open spec fn spec_is_status(s: Seq<u8>) -> bool {
    s.len() == 3 && 0x31 <= s[0] && s[0] <= 0x39 && 0x30 <= s[1] && s[1] <= 0x39 && 0x30 <= s[2] && s[2] <= 0x39
}
pub uninterp spec fn spec_is_method(s: Seq<u8>) -> bool;      // non-empty, method token bytes (method.rs METHOD_CHARS)

// ===== header::{HeaderName, HeaderValue} =====
#[verifier::external_body] pub struct InvalidHeaderName { x: u8 }
#[verifier::external_body] pub struct InvalidHeaderValue { x: u8 }
#[verifier::external_body] pub struct HeaderName { x: u8 }
#[verifier::external_body] pub struct HeaderValue { x: u8 }
impl HeaderName {
    pub uninterp spec fn bytes(&self) -> Seq<u8>;
    // accepted ==> every byte is in HEADER_CHARS_H2, name non-empty; complete up to MAX_HEADER_NAME_LEN = 65535
    #[verifier::external_body]
    pub fn from_lowercase(src: &[u8]) -> (r: Result<HeaderName, InvalidHeaderName>)
        ensures r is Ok ==> spec_is_http_name(src@) && src@.len() <= 65535 && r->Ok_0.bytes() == src@,
            spec_is_http_name(src@) && src@.len() <= 65535 ==> r is Ok,
    { unimplemented!() }
    // NOT the function h3 calls; present only so that the mutant `from_lowercase -> from_bytes` type-checks.
    // `HeaderName::from_bytes` lower-cases its input: uppercase letters are accepted.
    #[verifier::external_body]
    pub fn from_bytes(src: &[u8]) -> (r: Result<HeaderName, InvalidHeaderName>)
        ensures r is Ok ==> r->Ok_0.bytes().len() == src@.len() && src@.len() > 0,
    { unimplemented!() }
    #[verifier::external_body]
    pub fn as_str(&self) -> (r: &str) ensures r.spec_bytes() == self.bytes() { unimplemented!() }
}
// type invariant of HeaderName (every constructor validates / lower-cases)
impl HeaderValue {
    pub uninterp spec fn bytes(&self) -> Seq<u8>;
    #[verifier::external_body]
    pub fn from_bytes(src: &[u8]) -> (r: Result<HeaderValue, InvalidHeaderValue>)
        ensures r is Ok <==> spec_is_field_value(src@),
            r is Ok ==> r->Ok_0.bytes() == src@,
    { unimplemented!() }
    #[verifier::external_body]
    pub fn as_bytes(&self) -> (r: &[u8]) ensures r@ == self.bytes() { unimplemented!() }
}
// `impl PartialEq<HeaderValue> for str` (http header/value.rs): byte-wise comparison
impl PartialEq<HeaderValue> for str {
    #[verifier::external_body]
    fn eq(&self, other: &HeaderValue) -> (r: bool) ensures r == (self.spec_bytes() == other.bytes()) { unimplemented!() }
}
impl vstd::std_specs::cmp::PartialEqSpecImpl<HeaderValue> for str {
    open spec fn obeys_eq_spec() -> bool { true }
    open spec fn eq_spec(&self, other: &HeaderValue) -> bool { self.spec_bytes() == other.bytes() }
}

// ===== Method, StatusCode =====
#[verifier::external_body] pub struct InvalidMethod { x: u8 }
#[verifier::external_body] pub struct InvalidStatusCode { x: u8 }
#[verifier::external_body] pub struct Method { x: u8 }
#[verifier::external_body] pub struct StatusCode { x: u8 }
pub uninterp spec fn spec_method_of(b: Seq<u8>) -> Method;
impl Method {
    pub uninterp spec fn bytes(&self) -> Seq<u8>;      // == as_str() bytes
    #[verifier::external_body]
    pub exec const OPTIONS: Method ensures Self::OPTIONS.bytes() == "OPTIONS".spec_bytes() { Method { x: 0 } }
    #[verifier::external_body]
    pub exec const GET: Method ensures Self::GET.bytes() == "GET".spec_bytes() { Method { x: 2 } }
    #[verifier::external_body]
    pub exec const CONNECT: Method ensures Self::CONNECT.bytes() == "CONNECT".spec_bytes() { Method { x: 1 } }
    #[verifier::external_body]
    pub fn from_bytes(src: &[u8]) -> (r: Result<Method, InvalidMethod>)
        ensures r is Ok <==> spec_is_method(src@),
            r is Ok ==> r->Ok_0.bytes() == src@,
    { unimplemented!() }
    #[verifier::external_body]
    pub fn as_str(&self) -> (r: &str) ensures r.spec_bytes() == self.bytes() { unimplemented!() }
}
// a Method always holds a valid method token
impl Clone for Method {
    #[verifier::external_body] fn clone(&self) -> (r: Self) ensures r == *self { unimplemented!() }
}
impl PartialEq for Method {
    #[verifier::external_body]
    fn eq(&self, other: &Method) -> (r: bool) ensures r == (self.bytes() == other.bytes()) { unimplemented!() }
}
impl vstd::std_specs::cmp::PartialEqSpecImpl for Method {
    open spec fn obeys_eq_spec() -> bool { true }
    open spec fn eq_spec(&self, other: &Method) -> bool { self.bytes() == other.bytes() }
}
impl StatusCode {
    pub uninterp spec fn bytes(&self) -> Seq<u8>;      // == as_str() bytes (three digits)
    #[verifier::external_body]
    pub exec const OK: StatusCode ensures Self::OK.bytes() == "200".spec_bytes() { StatusCode { x: 0 } }
    #[verifier::external_body]
    pub fn from_bytes(src: &[u8]) -> (r: Result<StatusCode, InvalidStatusCode>)
        ensures r is Ok <==> spec_is_status(src@),
            r is Ok ==> r->Ok_0.bytes() == src@,
    { unimplemented!() }
    #[verifier::external_body]
    pub fn as_str(&self) -> (r: &str) ensures r.spec_bytes() == self.bytes() { unimplemented!() }
}

// ===== uri::{Scheme, Authority, PathAndQuery, Parts, Uri, Builder} =====
#[verifier::external_body] pub struct InvalidUri { x: u8 }
#[verifier::external_body] pub struct Scheme { x: u8 }
#[verifier::external_body] pub struct Authority { x: u8 }
#[verifier::external_body] pub struct PathAndQuery { x: u8 }
// what the parsers accept (uri/scheme.rs, uri/authority.rs `parse_non_empty`, uri/path.rs `from_shared`)
pub uninterp spec fn spec_scheme_from(s: Seq<u8>) -> Option<Scheme>;
pub uninterp spec fn spec_authority_from(s: Seq<u8>) -> Option<Authority>;
pub uninterp spec fn spec_path_from(s: Seq<u8>) -> Option<PathAndQuery>;
impl Scheme {
    pub uninterp spec fn bytes(&self) -> Seq<u8>;      // == as_str() bytes
    #[verifier::external_body]
    pub exec const HTTPS: Scheme ensures Self::HTTPS.bytes() == "https".spec_bytes() { Scheme { x: 0 } }
    #[verifier::external_body]
    pub fn as_str(&self) -> (r: &str) ensures r.spec_bytes() == self.bytes() { unimplemented!() }
}
impl Authority {
    pub uninterp spec fn bytes(&self) -> Seq<u8>;
    #[verifier::external_body]
    pub fn as_str(&self) -> (r: &str) ensures r.spec_bytes() == self.bytes() { unimplemented!() }
}
impl PathAndQuery {
    pub uninterp spec fn bytes(&self) -> Seq<u8>;      // == as_str() bytes: path [ "?" query ]
    pub uninterp spec fn path_bytes(&self) -> Seq<u8>; // == path() bytes
    #[verifier::external_body]
    pub fn from_static(src: &'static str) -> (r: PathAndQuery)
        requires spec_path_from(src.spec_bytes()) is Some,      // panics otherwise
        ensures Some(r) == spec_path_from(src.spec_bytes()),
    { unimplemented!() }
    #[verifier::external_body]
    pub fn as_str(&self) -> (r: &str) ensures r.spec_bytes() == self.bytes() { unimplemented!() }
    #[verifier::external_body]
    pub fn path(&self) -> (r: &str) ensures r.spec_bytes() == self.path_bytes() { unimplemented!() }
}
// parsed values keep their text (Scheme, Authority: stored verbatim; PathAndQuery: verbatim up to a '#', so only
// "re-parsing the stored text gives the same value" is assumed for it); an Authority is never empty
// (`Authority::parse_non_empty`, ErrorKind::Empty); "/" is a valid path
impl FromStr for Scheme {
    type Err = InvalidUri;
    open spec fn spec_from(s: Seq<u8>) -> Option<Self> { spec_scheme_from(s) }
    #[verifier::external_body] fn from_str(s: &str) -> (r: Result<Self, InvalidUri>) { unimplemented!() }
}
impl FromStr for Authority {
    type Err = InvalidUri;
    open spec fn spec_from(s: Seq<u8>) -> Option<Self> { spec_authority_from(s) }
    #[verifier::external_body] fn from_str(s: &str) -> (r: Result<Self, InvalidUri>) { unimplemented!() }
}
impl FromStr for PathAndQuery {
    type Err = InvalidUri;
    open spec fn spec_from(s: Seq<u8>) -> Option<Self> { spec_path_from(s) }
    #[verifier::external_body] fn from_str(s: &str) -> (r: Result<Self, InvalidUri>) { unimplemented!() }
}

// what `uri::Builder::authority` accepts (the `Authority: TryFrom<T>` bound of the http crate, for the two T used with h3)
pub trait AuthoritySource { spec fn src_bytes(&self) -> Seq<u8>; }
impl<'a> AuthoritySource for &'a [u8] { open spec fn src_bytes(&self) -> Seq<u8> { (*self)@ } }
impl AuthoritySource for Authority { open spec fn src_bytes(&self) -> Seq<u8> { self.bytes() } }
// `impl TryFrom<&[u8]> for Authority` (uri/authority.rs: `Authority::try_from(s)` is the parser)
impl<'a> TryFrom<&'a [u8]> for Authority {
    type Error = InvalidUri;
    #[verifier::external_body]
    fn try_from(s: &'a [u8]) -> (r: Result<Authority, InvalidUri>)
        ensures match r { Ok(a) => spec_authority_from(s@) == Some(a), Err(_) => spec_authority_from(s@) is None },
    { unimplemented!() }
}
// `impl PartialEq for Authority` compares with `eq_ignore_ascii_case` (uri/authority.rs): equal bytes compare equal,
// but values that compare equal need NOT have the same bytes ("Example.com" == "example.com")
pub uninterp spec fn spec_eq_ignore_ascii_case(a: Seq<u8>, b: Seq<u8>) -> bool;
impl PartialEq for Authority {
    #[verifier::external_body]
    fn eq(&self, other: &Authority) -> (r: bool) ensures r == spec_eq_ignore_ascii_case(self.bytes(), other.bytes()) { unimplemented!() }
}
impl From<InvalidUri> for http::Error {
    #[verifier::external_body] fn from(e: InvalidUri) -> (r: http::Error) { unimplemented!() }
}
// std: Option<Result<T, E>>::transpose
pub assume_specification<T, E> [Option::<Result<T, E>>::transpose] (o: Option<Result<T, E>>) -> (r: Result<Option<T>, E>)
    ensures r == (match o { None => Ok::<Option<T>, E>(None), Some(Ok(x)) => Ok(Some(x)), Some(Err(e)) => Err(e) });

#[verifier::external_body] pub struct Uri { x: u8 }
// http::uri::Parts has exactly these public fields (+ a private unit field)
pub struct Parts {
    pub scheme: Option<Scheme>,
    pub authority: Option<Authority>,
    pub path_and_query: Option<PathAndQuery>,
    pub _priv: (),
}
impl Uri {
    pub uninterp spec fn parts(&self) -> Parts;
    #[verifier::external_body]
    pub fn builder() -> (r: Builder)
        ensures !r.s_failed(), r.s_scheme() is None, r.s_authority() is None, r.s_path() is None,
    { unimplemented!() }
    #[verifier::external_body]
    pub fn authority(&self) -> (r: Option<&Authority>)
        ensures r is Some <==> self.parts().authority is Some, r is Some ==> *r->Some_0 == self.parts().authority->Some_0,
    { unimplemented!() }
}
impl From<Uri> for Parts {
    #[verifier::external_body]
    fn from(src: Uri) -> (r: Parts) ensures r == src.parts() { unimplemented!() }
}
impl vstd::std_specs::convert::FromSpecImpl<Uri> for Parts {
    open spec fn obeys_from_spec() -> bool { true }
    open spec fn from_spec(src: Uri) -> Self { src.parts() }
}
// uri::Builder: remembers the raw bytes given for each component and whether one of them failed to parse
// (the real builder stores `Result<Parts, Error>`; each setter is `self.map(|parts| { parts.x = Some(v.try_into()?) })`)
#[verifier::external_body] pub struct Builder { x: u8 }
impl Builder {
    pub uninterp spec fn s_failed(&self) -> bool;
    pub uninterp spec fn s_scheme(&self) -> Option<Seq<u8>>;
    pub uninterp spec fn s_authority(&self) -> Option<Seq<u8>>;
    pub uninterp spec fn s_path(&self) -> Option<Seq<u8>>;
    #[verifier::external_body]
    pub fn scheme(self, v: &[u8]) -> (r: Builder)
        ensures r.s_failed() == (self.s_failed() || spec_scheme_from(v@) is None),
            r.s_scheme() == Some(v@), r.s_authority() == self.s_authority(), r.s_path() == self.s_path(),
    { unimplemented!() }
    // `authority<T>(self, auth: T) where Authority: TryFrom<T>`: bytes are parsed, an `Authority` is taken as it is
    #[verifier::external_body]
    pub fn authority<T: AuthoritySource>(self, v: T) -> (r: Builder)
        ensures r.s_failed() == (self.s_failed() || spec_authority_from(v.src_bytes()) is None),
            r.s_authority() == Some(v.src_bytes()), r.s_scheme() == self.s_scheme(), r.s_path() == self.s_path(),
    { unimplemented!() }
    #[verifier::external_body]
    pub fn path_and_query(self, v: &[u8]) -> (r: Builder)
        ensures r.s_failed() == (self.s_failed() || spec_path_from(v@) is None),
            r.s_path() == Some(v@), r.s_scheme() == self.s_scheme(), r.s_authority() == self.s_authority(),
    { unimplemented!() }
    // `Uri::from_parts`: Ok exactly when no component failed and the shape is one of
    // (scheme, authority, path) | (authority only) | (path only) | (authority? , no scheme, not both) — uri/mod.rs:
    // scheme ⇒ authority ∧ path;  ¬scheme ⇒ ¬(authority ∧ path)
    #[verifier::external_body]
    pub fn build(self) -> (r: Result<Uri, http::Error>)
        ensures r is Ok <==> (!self.s_failed() && spec_uri_shape_ok(self.s_scheme() is Some, self.s_authority() is Some, self.s_path() is Some)),
            r is Ok ==> {
                let p = r->Ok_0.parts();
                &&& (p.scheme is Some <==> self.s_scheme() is Some)
                &&& (p.authority is Some <==> self.s_authority() is Some)
                &&& (p.path_and_query is Some <==> self.s_path() is Some)
                &&& (p.scheme is Some ==> Some(p.scheme->Some_0) == spec_scheme_from(self.s_scheme()->Some_0))
                &&& (p.authority is Some ==> Some(p.authority->Some_0) == spec_authority_from(self.s_authority()->Some_0))
                &&& (p.path_and_query is Some ==> Some(p.path_and_query->Some_0) == spec_path_from(self.s_path()->Some_0))
            },
    { unimplemented!() }
}
pub open spec fn spec_uri_shape_ok(scheme: bool, authority: bool, path: bool) -> bool {
    if scheme { authority && path } else { !(authority && path) }
}
pub mod http { #[verifier::external_body] pub struct Error { x: u8 } }
// `impl From<header::MaxSizeReached> for http::Error` (http error.rs)
impl From<MaxSizeReached> for http::Error {
    #[verifier::external_body] fn from(e: MaxSizeReached) -> (r: http::Error) { unimplemented!() }
}
pub mod uri { pub use super::Parts; }

// ===== Extensions (only `get::<T>()` is used) =====
#[verifier::external_body] pub struct Extensions { x: u8 }
impl Extensions {
    pub uninterp spec fn spec_get<T>(&self) -> Option<T>;
    #[verifier::external_body]
    pub fn get<T>(&self) -> (r: Option<&T>)
        ensures r is Some <==> self.spec_get::<T>() is Some, r is Some ==> *r->Some_0 == self.spec_get::<T>()->Some_0,
    { unimplemented!() }
}

// ===== HeaderMap<HeaderValue> and its owning iterator =====
// View: `entries()` = the (name, value) pairs in ITERATION order (names in order of first insertion, all values of a
// name together in insertion order).  True for a map that was only built by `append`/`insert` without removals, which
// is all h3 does here; for a caller-supplied map `entries()` is simply whatever its iteration order is.
pub const HEADER_MAP_MAX_SIZE: usize = 32768;   // header/map.rs MAX_SIZE = 1 << 15
#[verifier::external_body] pub struct HeaderMap { x: u8 }
pub open spec fn spec_hm_has(e: Seq<(Seq<u8>, Seq<u8>)>, n: Seq<u8>) -> bool { exists|i: int| 0 <= i < e.len() && (#[trigger] e[i]).0 == n }
pub open spec fn spec_hm_last_index(e: Seq<(Seq<u8>, Seq<u8>)>, name: Seq<u8>) -> int
    decreases e.len()
{
    if e.len() == 0 { -1 } else if e.last().0 == name { e.len() - 1 } else { spec_hm_last_index(e.drop_last(), name) }
}
// append: after the last entry of the same name, or at the end for a new name
pub open spec fn spec_hm_append(e: Seq<(Seq<u8>, Seq<u8>)>, name: Seq<u8>, value: Seq<u8>) -> Seq<(Seq<u8>, Seq<u8>)> {
    let k = spec_hm_last_index(e, name);
    if k < 0 { e.push((name, value)) } else { e.insert(k + 1, (name, value)) }
}
pub open spec fn spec_hm_first(e: Seq<(Seq<u8>, Seq<u8>)>, name: Seq<u8>) -> Option<Seq<u8>>
    decreases e.len()
{
    if e.len() == 0 { None } else if e[0].0 == name { Some(e[0].1) } else { spec_hm_first(e.skip(1), name) }
}
impl HeaderMap {
    pub uninterp spec fn entries(&self) -> Seq<(Seq<u8>, Seq<u8>)>;
    pub uninterp spec fn keys_len(&self) -> nat;           // number of distinct names (length of the `entries` Vec of the real map)
    // PANICS ("size overflows MAX_SIZE") unless capacity == 0 or (capacity + capacity/3).next_power_of_two() <= 32768
    #[verifier::external_body]
    pub fn with_capacity(capacity: usize) -> (r: HeaderMap)
        requires capacity + capacity / 3 <= HEADER_MAP_MAX_SIZE,
        ensures r.entries().len() == 0, r.keys_len() == 0,
            capacity + capacity / 3 <= HEADER_MAP_MAX_SIZE,     // it returned, so it did not panic
    { unimplemented!() }
    // PANICS ("size overflows MAX_SIZE") when the table would have to grow beyond 32768 slots, i.e. when it already
    // holds 24576 distinct names (`try_reserve_one` runs before the lookup, so even for an existing name)
    #[verifier::external_body]
    pub fn append(&mut self, key: HeaderName, value: HeaderValue) -> (r: bool)
        requires old(self).keys_len() < 24576,
        ensures old(self).keys_len() < 24576,                   // it returned, so it did not panic
            final(self).entries() == spec_hm_append(old(self).entries(), key.bytes(), value.bytes()),
            final(self).keys_len() == old(self).keys_len() + (if r { 0nat } else { 1nat }),
            r == spec_hm_has(old(self).entries(), key.bytes()),
    { unimplemented!() }
    // the non-panicking variant (http >= 1.0), used once units/headers.fix.min.diff is applied
    #[verifier::external_body]
    pub fn try_with_capacity(capacity: usize) -> (r: Result<HeaderMap, MaxSizeReached>)
        ensures r is Ok <==> capacity + capacity / 3 <= HEADER_MAP_MAX_SIZE,
            r is Ok ==> r->Ok_0.entries().len() == 0 && r->Ok_0.keys_len() == 0,
    { unimplemented!() }
    // `get(&str)`: first value of that name; `None` also when `key` is not a valid header name
    #[verifier::external_body]
    pub fn get(&self, key: &str) -> (r: Option<&HeaderValue>)
        ensures r is Some <==> spec_hm_first(self.entries(), key.spec_bytes()) is Some,
            r is Some ==> r->Some_0.bytes() == spec_hm_first(self.entries(), key.spec_bytes())->Some_0,
    { unimplemented!() }
    #[verifier::external_body]
    pub fn len(&self) -> (r: usize) ensures r == self.entries().len() { unimplemented!() }
    #[verifier::external_body]
    pub fn is_empty(&self) -> (r: bool) ensures r == (self.entries().len() == 0) { unimplemented!() }
}
#[verifier::external_body] pub struct MaxSizeReached { x: u8 }
pub mod header {
    #[allow(unused_imports)] use super::*;
    // http::header::IntoIter<T>: documented to yield `(Some(name), v1), (None, v2), …` — the name only with the
    // first value of each name.  `rest()` is what is still to come.
    #[verifier::external_body]
    #[verifier::reject_recursive_types(T)]
    pub struct IntoIter<T> { p: std::marker::PhantomData<T> }
}
impl header::IntoIter<HeaderValue> {
    pub uninterp spec fn rest(&self) -> Seq<(Option<HeaderName>, HeaderValue)>;
    #[verifier::external_body]
    pub fn next(&mut self) -> (r: Option<(Option<HeaderName>, HeaderValue)>)
        ensures match r {
            Some(x) => old(self).rest().len() > 0 && x == old(self).rest()[0] && final(self).rest() == old(self).rest().skip(1),
            None => old(self).rest().len() == 0 && final(self).rest() == old(self).rest(),
        }
    { unimplemented!() }
}
// name carried over the `None`s: the (name, value) pairs an `IntoIter` stands for, given the last name seen.
// An element without a name and without a previous name is skipped (cannot happen for a real IntoIter).
pub open spec fn spec_carry(last: Option<Seq<u8>>, rest: Seq<(Option<HeaderName>, HeaderValue)>) -> Seq<(Seq<u8>, Seq<u8>)>
    decreases rest.len()
{
    if rest.len() == 0 { Seq::empty() } else {
        let name = match rest[0].0 { Some(n) => Some(n.bytes()), None => last };
        match name {
            Some(n) => seq![(n, rest[0].1.bytes())] + spec_carry(name, rest.skip(1)),
            None => spec_carry(name, rest.skip(1)),
        }
    }
}
impl HeaderMap {
    #[verifier::external_body]
    pub fn into_iter(self) -> (r: header::IntoIter<HeaderValue>)
        ensures spec_carry(None, r.rest()) == self.entries(),
    { unimplemented!() }
}

// ===== all assumed facts about values of the shim types, as one broadcast group (in a submodule: `broadcast use`
// in the defining module is a definition cycle for Verus) =====
pub mod http_ax {
    use super::*;
    #[verifier::external_body]
    pub broadcast proof fn axiom_spec_cow(b: Seq<u8>)
        ensures (#[trigger] spec_cow(b)).bytes() == b
    {}
    #[verifier::external_body]
    pub broadcast proof fn axiom_method_nonempty(s: Seq<u8>)
        ensures #[trigger] spec_is_method(s) ==> s.len() > 0
    {}
    #[verifier::external_body]
    pub broadcast proof fn axiom_header_name_inv(n: HeaderName)
        ensures spec_is_http_name(#[trigger] n.bytes())
    {}
    #[verifier::external_body]
    pub broadcast proof fn axiom_method_inv(m: Method)
        ensures spec_is_method(#[trigger] m.bytes())
    {}
    #[verifier::external_body]
    pub broadcast proof fn axiom_status_inv(s: StatusCode)
        ensures spec_is_status(#[trigger] s.bytes())
    {}
    #[verifier::external_body]
    pub broadcast proof fn axiom_scheme_from(s: Seq<u8>)
        ensures (#[trigger] spec_scheme_from(s)) is Some ==> spec_scheme_from(s)->Some_0.bytes() == s
    {}
    #[verifier::external_body]
    pub broadcast proof fn axiom_authority_from(s: Seq<u8>)
        ensures (#[trigger] spec_authority_from(s)) is Some ==> s.len() > 0 && spec_authority_from(s)->Some_0.bytes() == s
    {}
    #[verifier::external_body]
    pub broadcast proof fn axiom_authority_inv(a: Authority)
        ensures spec_authority_from(#[trigger] a.bytes()) == Some(a)
    {}
    #[verifier::external_body]
    pub broadcast proof fn axiom_scheme_inv(a: Scheme)
        ensures spec_scheme_from(#[trigger] a.bytes()) == Some(a)
    {}
    #[verifier::external_body]
    pub broadcast proof fn axiom_path_inv(a: PathAndQuery)
        ensures spec_path_from(#[trigger] a.bytes()) == Some(a)
    {}
    #[verifier::external_body]
    pub broadcast proof fn axiom_path_slash()
        ensures (#[trigger] spec_path_from("/".spec_bytes())) is Some
    {}
    #[verifier::external_body]
    pub broadcast proof fn axiom_eq_ignore_case_refl(a: Seq<u8>)
        ensures #[trigger] spec_eq_ignore_ascii_case(a, a)
    {}
    pub broadcast group group_http_ax {
        axiom_eq_ignore_case_refl, axiom_spec_cow, axiom_method_nonempty, axiom_header_name_inv, axiom_method_inv, axiom_status_inv, axiom_scheme_from, axiom_authority_from, axiom_authority_inv, axiom_scheme_inv, axiom_path_inv, axiom_path_slash
    }
}
