// ---- bytes::buf::Take<&mut T> (the only instantiation h3 uses: `buf.take(n)` on `buf: &mut T`).
// Assumed contract of the bytes crate.  `step_ok` records how the *inner* buffer moves when the Take is
// consumed, and that the inner reference keeps its identity, so that what is consumed *through* the Take is
// visible on `final(buf)` of the function that created it (DESIGN §2, probe take_mut_shim).
pub struct TakeMut<'a, T> { pub inner: &'a mut T, pub limit: usize }
impl<'a, T: Buf> Buf for TakeMut<'a, T> {
    open spec fn view(&self) -> Seq<u8> {
        if self.limit as int <= (*self.inner)@.len() { (*self.inner)@.take(self.limit as int) } else { (*self.inner)@ }
    }
    open spec fn buf_wf(&self) -> bool { (*self.inner).buf_wf() && self.limit <= (*self.inner)@.len() }
    open spec fn contiguous(&self) -> bool { (*self.inner).contiguous() }
    #[verifier::prophetic]
    open spec fn step_ok(pre: &Self, post: &Self) -> bool {
        &&& mut_ref_future(post.inner) == mut_ref_future(pre.inner)
        &&& post.limit <= pre.limit
        &&& pre.limit <= (*pre.inner)@.len()
        &&& (*post.inner)@ == (*pre.inner)@.skip(pre.limit - post.limit)
        &&& T::step_ok(&*pre.inner, &*post.inner)
    }
    proof fn lemma_step_refl(a: &Self) { assert((*a.inner)@.skip(0) =~= (*a.inner)@); T::lemma_step_refl(&*a.inner); }
    proof fn lemma_step_trans(a: &Self, b: &Self, c: &Self) {
        assert((*a.inner)@.skip(a.limit - b.limit).skip(b.limit - c.limit) =~= (*a.inner)@.skip(a.limit - c.limit));
        T::lemma_step_trans(&*a.inner, &*b.inner, &*c.inner);
    }
    #[verifier::external_body] fn remaining(&self) -> (r: usize) { unimplemented!() }
    #[verifier::external_body] fn chunk(&self) -> (r: &[u8]) { unimplemented!() }
    #[verifier::external_body] fn advance(&mut self, cnt: usize) { unimplemented!() }
    #[verifier::external_body] fn get_u8(&mut self) -> (r: u8) { unimplemented!() }
    #[verifier::external_body] fn copy_to_bytes(&mut self, len: usize) -> (r: Bytes) { unimplemented!() }
}
pub trait BufTake<'a, T> { fn take(self, limit: usize) -> (r: TakeMut<'a, T>); }
impl<'a, T: Buf> BufTake<'a, T> for &'a mut T {
    #[verifier::external_body]
    fn take(self, limit: usize) -> (r: TakeMut<'a, T>)
        ensures mut_ref_current(r.inner) == mut_ref_current(self), mut_ref_future(r.inner) == mut_ref_future(self), r.limit == limit,
    { unimplemented!() }
}
