// ---- shared by units server_accept / client_goaway (C08, C09): ids, frames, the transport contract
// ---- (DESIGN §3.3: the transport is the adversary, its ghost logs are what the postconditions talk about),
// ---- SharedState's closing flag, ConnectionInner and the functions *below* the ones under contract.
use std::collections::HashSet;
use std::sync::Arc;
use std::cmp::Ordering;
use std::ops::Add;
use vstd::std_specs::cmp::PartialOrdSpec;
use vstd::multiset::Multiset;

#[verifier::external_type_specification]
#[verifier::external_body]
pub struct ExContext<'a>(Context<'a>);
#[verifier::external_type_specification]
#[verifier::reject_recursive_types(T)]
pub struct ExPoll<T>(Poll<T>);
pub assume_specification<T> [std::task::Poll::<T>::is_pending] (p: &std::task::Poll<T>) -> (r: bool) ensures r == (*p is Pending);
pub assume_specification<T> [std::task::Poll::<T>::is_ready] (p: &std::task::Poll<T>) -> (r: bool) ensures r == (*p is Ready);
pub assume_specification<T> [<T as std::convert::From<T>>::from] (t: T) -> (r: T) ensures r == t;

#[verifier::external_body]
pub fn shim_msg() -> String { unimplemented!() }

//@include codes.rs
impl Code {
//@extract h3/src/error/codes.rs :: impl Code :: fn value
//@ret r
//@sig
        ensures r == self.code,
//@end
}

// ---------------------------------------------------------------------------------------------
// identifiers (real definitions; the derived comparison / hashing impls get their meaning by axiom)
//@extract h3/src/proto/varint.rs :: - :: struct VarInt
//@attr #[derive(Copy, Clone, Eq, PartialEq, Ord, PartialOrd, Hash, Structural)]
//@end
//@extract h3/src/proto/stream.rs :: - :: struct StreamId
//@attr #[derive(Copy, Clone, Eq, PartialEq, Ord, PartialOrd, Hash, Structural)]
//@end
//@extract h3/src/proto/push.rs :: - :: struct PushId
//@attr #[derive(Copy, Clone, Eq, PartialEq, Ord, PartialOrd, Hash, Structural)]
//@end

pub mod ax {
    use super::*;
    pub open spec fn spec_cmp(a: u64, b: u64) -> Ordering {
        if a < b { Ordering::Less } else if a == b { Ordering::Equal } else { Ordering::Greater }
    }
    // ASSUMED: `#[derive(PartialOrd, Ord, PartialEq, Eq, Hash)]` on a one-field tuple struct compares / hashes the field.
    #[verifier::external_body]
    pub broadcast proof fn axiom_id_derives()
        ensures
            #[trigger] <StreamId as PartialOrdSpec>::obeys_partial_cmp_spec(),
            forall|a: StreamId, b: StreamId| #[trigger] a.partial_cmp_spec(&b) == Some(spec_cmp(a.0, b.0)),
            <VarInt as PartialOrdSpec>::obeys_partial_cmp_spec(),
            forall|a: VarInt, b: VarInt| #[trigger] a.partial_cmp_spec(&b) == Some(spec_cmp(a.0, b.0)),
            <PushId as PartialOrdSpec>::obeys_partial_cmp_spec(),
            forall|a: PushId, b: PushId| #[trigger] a.partial_cmp_spec(&b) == Some(spec_cmp(a.0, b.0)),
            vstd::std_specs::hash::obeys_key_model::<StreamId>(),
    {}
}
broadcast use ax::axiom_id_derives;

pub open spec fn TWO62() -> int { 0x4000_0000_0000_0000 }
// RFC 9000 §2.1: client-initiated bidirectional = the two low bits are 00
pub open spec fn spec_is_request(v: u64) -> bool { v % 4 == 0 }
// `id + n`: advance by n streams of the same kind, saturating at the largest valid index (2^60 - 1)
pub open spec fn spec_sid_add(v: u64, n: usize) -> u64 {
    let i = v as int / 4 + n as int;
    ((if i > 0x0fff_ffff_ffff_ffff { 0x0fff_ffff_ffff_ffff } else { i }) * 4 + v as int % 4) as u64
}

impl vstd::std_specs::convert::FromSpecImpl<VarInt> for StreamId {
    open spec fn obeys_from_spec() -> bool { true }
    open spec fn from_spec(v: VarInt) -> Self { StreamId(v.0) }
}
impl vstd::std_specs::convert::FromSpecImpl<StreamId> for VarInt {
    open spec fn obeys_from_spec() -> bool { true }
    open spec fn from_spec(v: StreamId) -> Self { VarInt(v.0) }
}
impl vstd::std_specs::convert::FromSpecImpl<VarInt> for PushId {
    open spec fn obeys_from_spec() -> bool { true }
    open spec fn from_spec(v: VarInt) -> Self { PushId(v.0) }
}
impl vstd::std_specs::convert::FromSpecImpl<PushId> for VarInt {
    open spec fn obeys_from_spec() -> bool { true }
    open spec fn from_spec(v: PushId) -> Self { VarInt(v.0) }
}
impl From<VarInt> for StreamId {
//@extract h3/src/proto/stream.rs :: impl From<VarInt> for StreamId :: fn from
//@ret r
//@sig
        ensures r.0 == v.0,
//@end
}
impl From<StreamId> for VarInt {
//@extract h3/src/proto/stream.rs :: impl From<StreamId> for VarInt :: fn from
//@ret r
//@sig
        ensures r.0 == v.0,
//@end
}
impl From<VarInt> for PushId {
//@extract h3/src/proto/push.rs :: impl From<VarInt> for PushId :: fn from
//@ret r
//@sig
        ensures r.0 == v.0,
//@end
}
impl From<PushId> for VarInt {
//@extract h3/src/proto/push.rs :: impl From<PushId> for VarInt :: fn from
//@ret r
//@sig
        ensures r.0 == v.0,
//@end
}

//@extract h3/src/proto/stream.rs :: - :: enum Side
//@attr #[derive(Copy, Clone, Eq, PartialEq, Structural)]
//@end
//@extract h3/src/proto/stream.rs :: - :: enum Dir
//@attr #[derive(Copy, Clone, Eq, PartialEq, Structural)]
//@end
impl StreamId {
    // ASSUMED-FROM-UNIT: kani c16_streamid_fields (`StreamId::FIRST_REQUEST.into_inner() == 0`)
    pub const FIRST_REQUEST: StreamId = StreamId(0);
//@extract h3/src/proto/stream.rs :: impl StreamId :: fn initiator
//@tag C08 C06
//@ret r
//@sig
        ensures (r == Side::Client) == (self.0 % 2 == 0), // [C08.recv.kind.bits]
//@entry
        proof { let v = self.0; assert((v & 0x1 == 0) == (v % 2 == 0)) by (bit_vector); }
//@end
//@extract h3/src/proto/stream.rs :: impl StreamId :: fn dir
//@tag C08 C06
//@ret r
//@sig
        ensures (r == Dir::Bi) == ((self.0 / 2) % 2 == 0), // [C08.recv.kind.bits]
//@entry
        proof { let v = self.0; assert((v & 0x2 == 0) == ((v / 2) % 2 == 0)) by (bit_vector); }
//@end
//@extract h3/src/proto/stream.rs :: impl StreamId :: fn is_request
//@tag C08 C06
//@ret r
//@sig
        ensures r == spec_is_request(self.0), // [C08.recv.kind.pred]
//@end
}
// ASSUMED-FROM-UNIT: kani c16_streamid_add_saturates  (index' = min(index + n, 2^60 - 1), kind preserved, for every id < 2^62 and every usize)
impl vstd::std_specs::ops::AddSpecImpl<usize> for StreamId {
    open spec fn obeys_add_spec() -> bool { true }
    open spec fn add_req(self, rhs: usize) -> bool { self.0 < TWO62() }
    open spec fn add_spec(self, rhs: usize) -> StreamId { StreamId(spec_sid_add(self.0, rhs)) }
}
impl Add<usize> for StreamId {
    type Output = StreamId;
    #[verifier::external_body]
    fn add(self, rhs: usize) -> (r: StreamId) { unimplemented!() }
}

// ---------------------------------------------------------------------------------------------
// frames (real enum; payload types that play no role here are opaque)
#[verifier::external_body] pub struct Settings { x: u8 }
#[verifier::external_body] pub struct PushPromise { x: u8 }
#[verifier::external_body] pub struct SessionId { x: u8 }
//@extract h3/src/proto/frame.rs :: - :: struct PayloadLen
//@end
//@extract h3/src/proto/frame.rs :: - :: enum Frame
//@attr #[verifier::reject_recursive_types(B)]
//@end

// what a frame looks like on the wire, as far as C08 cares
pub enum FrameTok { Goaway(u64), Headers(Seq<u8>), Other }
pub open spec fn frame_tok<B>(f: Frame<B>) -> FrameTok {
    match f { Frame::Goaway(v) => FrameTok::Goaway(v.0), Frame::Headers(h) => FrameTok::Headers(h.bytes()), _ => FrameTok::Other }
}

// ---------------------------------------------------------------------------------------------
// errors (opaque carriers; only the code of an internally raised error is observable here)
#[verifier::external_body] pub struct ConnectionError { x: u8 }
impl Clone for ConnectionError { #[verifier::external_body] fn clone(&self) -> (r: Self) ensures r == *self { unimplemented!() } }
#[verifier::external_body] pub struct ConnectionErrorIncoming { x: u8 }
#[verifier::external_body] pub struct BoxedError { x: u8 }
// real enum h3::quic::StreamErrorIncoming (the `Unknown` payload is a `Box<dyn Error>`)
pub enum StreamErrorIncoming {
    ConnectionErrorIncoming { connection_error: ConnectionErrorIncoming },
    StreamTerminated { error_code: u64 },
    Unknown(BoxedError),
}
pub struct InternalConnectionError { pub code: Code, pub message: String }
impl InternalConnectionError {
    // h3/src/error/internal_error.rs: `Self { code, message }`
    #[verifier::external_body]
    pub fn new(code: Code, message: String) -> (r: Self) ensures r.code == code { unimplemented!() }
}
// what is offered to `handle_connection_error`: an error detected by h3 itself (with its code) or one reported by the transport
pub enum Offered { Internal(Code), Quic }
pub trait IntoOrigin: Sized { spec fn offered(&self) -> Offered; }
impl IntoOrigin for InternalConnectionError { open spec fn offered(&self) -> Offered { Offered::Internal(self.code) } }
impl IntoOrigin for ConnectionErrorIncoming { open spec fn offered(&self) -> Offered { Offered::Quic } }

// ---------------------------------------------------------------------------------------------
// the transport (h3::quic traits): weakest contracts + ghost logs
pub struct Taken { pub uid: int, pub id: StreamId }
// Prophecy (DESIGN §3.3 uses the same device for OnceLock): the code of the *first* RESET_STREAM / STOP_SENDING that
// will ever be applied to the incoming bidirectional stream with ghost identity `uid` (None = never).  A QUIC stream
// is reset / stopped at most once (RFC 9000 §3.1/§3.2: first one wins), so the first call fixes the value for good.
pub uninterp spec fn fate_reset(uid: int) -> Option<u64>;
pub uninterp spec fn fate_stop(uid: int) -> Option<u64>;

pub mod quic {
    use super::*;
    pub trait StreamGhost {
        spec fn sid(&self) -> StreamId;             // QUIC stream id
        spec fn uid(&self) -> int;                  // ghost identity of this stream object
        spec fn resets(&self) -> Seq<u64>;          // codes given to reset(), in order
        spec fn stops(&self) -> Seq<u64>;           // codes given to stop_sending(), in order
        spec fn sent(&self) -> Seq<FrameTok>;       // frames handed to the transport on this stream, in order
    }
    pub trait SendStream<B: Buf>: StreamGhost {
        fn reset(&mut self, reset_code: u64)
            ensures (*final(self)).sid() == (*old(self)).sid(), (*final(self)).uid() == (*old(self)).uid(),
                (*final(self)).resets() == (*old(self)).resets().push(reset_code),
                (*final(self)).stops() == (*old(self)).stops(), (*final(self)).sent() == (*old(self)).sent(),
                (*old(self)).resets().len() == 0 ==> fate_reset((*old(self)).uid()) == Some(reset_code);
        fn send_id(&self) -> (r: StreamId)
            ensures r == self.sid();
    }
    pub trait RecvStream: StreamGhost {
        fn stop_sending(&mut self, error_code: u64)
            ensures (*final(self)).sid() == (*old(self)).sid(), (*final(self)).uid() == (*old(self)).uid(),
                (*final(self)).stops() == (*old(self)).stops().push(error_code),
                (*final(self)).resets() == (*old(self)).resets(), (*final(self)).sent() == (*old(self)).sent(),
                (*old(self)).stops().len() == 0 ==> fate_stop((*old(self)).uid()) == Some(error_code);
    }
    pub trait OpenStreams<B: Buf> {
        type BidiStream: SendStream<B> + RecvStream;
        type SendStream: SendStream<B>;
        spec fn opened(&self) -> nat;               // number of bidirectional streams this endpoint has opened
        fn poll_open_bidi(&mut self, cx: &mut Context<'_>) -> (r: Poll<Result<Self::BidiStream, StreamErrorIncoming>>)
            ensures match r {
                Poll::Ready(Ok(s)) => (*final(self)).opened() == (*old(self)).opened() + 1 && s.sent().len() == 0,
                _ => (*final(self)).opened() == (*old(self)).opened(),
            };
    }
    pub trait Connection<B: Buf>: OpenStreams<B> {
        type RecvStream: RecvStream;
        // every incoming bidirectional stream the transport has given to h3 so far, in order of delivery
        // (any order of ids: the trait promises none)
        spec fn taken(&self) -> Seq<Taken>;
        fn poll_accept_bidi(&mut self, cx: &mut Context<'_>) -> (r: Poll<Result<Self::BidiStream, ConnectionErrorIncoming>>)
            ensures (*final(self)).opened() == (*old(self)).opened(),
                match r {
                    Poll::Ready(Ok(s)) => (*final(self)).taken() == (*old(self)).taken().push(Taken { uid: s.uid(), id: s.sid() })
                        && s.uid() == (*old(self)).taken().len()          // fresh ghost identity
                        && s.sid().0 < TWO62()                             // StreamId type invariant (TryFrom<u64>)
                        && s.resets().len() == 0 && s.stops().len() == 0,
                    _ => (*final(self)).taken() == (*old(self)).taken(),
                };
    }
}

pub use quic::{StreamGhost, SendStream, RecvStream, OpenStreams};

pub mod stream {
    use super::*;
    // ASSUMED-FROM-UNIT: TODO stream::write  (`send_data(data)?` then wait for `poll_ready`; await-erased, R4).
    // The frame counts as handed to the transport iff `send_data` accepted it; on Err both outcomes are possible.
    #[verifier::external_body]
    pub fn write<S, B>(stream: &mut S, data: Frame<B>) -> (r: Result<(), StreamErrorIncoming>)
        where S: quic::SendStream<B>, B: Buf
        ensures (*final(stream)).sid() == (*old(stream)).sid(), (*final(stream)).uid() == (*old(stream)).uid(),
            (*final(stream)).resets() == (*old(stream)).resets(), (*final(stream)).stops() == (*old(stream)).stops(),
            (*final(stream)).sent() == (*old(stream)).sent().push(frame_tok(data))
                || (r is Err && (*final(stream)).sent() == (*old(stream)).sent()),
    { unimplemented!() }
}

// ---------------------------------------------------------------------------------------------
// SharedState: here only the closing flag matters.  `closing: AtomicBool` is written by `set_closing` (store(true)) only,
// so it is a monotone flag; it is modelled as a boolean attribute of the state, and `set_closing` takes `&mut self`
// (the real one takes `&self` and stores through the atomic) so that the store is visible in contracts.
#[verifier::external_body] pub struct SharedState { x: u8 }
impl SharedState { pub uninterp spec fn closing(&self) -> bool; }
pub trait ConnectionState {
    spec fn closing_flag(&self) -> bool;
    // h3/src/shared_state.rs: `self.shared_state().closing.load(Relaxed)`
    fn is_closing(&self) -> (r: bool)
        ensures r == self.closing_flag();
}

// real enum h3::error::StreamError (the `Undefined` payload is a `Box<dyn Error>`)
pub enum StreamError {
    StreamError { code: Code, reason: String },
    RemoteTerminate { code: Code },
    ConnectionError(ConnectionError),
    HeaderTooBig { actual_size: u64, max_size: u64 },
    RemoteClosing,
    Undefined(BoxedError),
}
// ASSUMED-FROM-UNIT: error_scope CloseStream::{handle_connection_error_on_stream, handle_quic_stream_error}: they
// write the shared error cell and wake the driver; they neither open streams nor touch the closing flag
pub trait CloseStream: ConnectionState {
    spec fn frame_same(&self, o: &Self) -> bool;
    fn handle_connection_error_on_stream(&mut self, internal_error: InternalConnectionError) -> (r: StreamError)
        ensures (*final(self)).frame_same(&*old(self));
    fn handle_quic_stream_error(&self, error: StreamErrorIncoming) -> (r: StreamError);
//@extract h3/src/error/connection_error_creators.rs :: trait CloseStream :: fn check_peer_connection_closing
//@tag C08 C06
//@ret r
//@sig
        ensures self.closing_flag() ==> r matches Some(StreamError::RemoteClosing), // [C08.client.check]
            !self.closing_flag() ==> r is None, // [C08.client.check.none]
//@end
}

// ---------------------------------------------------------------------------------------------
// ConnectionInner: the real struct; field types without a role here are opaque
#[verifier::external_body] #[verifier::reject_recursive_types(S)] #[verifier::reject_recursive_types(B)]
pub struct FrameStream<S, B> { s: S, b: B }
#[verifier::external_body] #[verifier::reject_recursive_types(S)] #[verifier::reject_recursive_types(B)]
pub struct BufRecvStream<S, B> { s: S, b: B }
#[verifier::external_body] #[verifier::reject_recursive_types(C)] #[verifier::reject_recursive_types(B)]
pub struct QpackStreams<C, B> { c: C, b: B }
#[verifier::external_body] #[verifier::reject_recursive_types(C)] #[verifier::reject_recursive_types(B)]
pub struct AcceptedStreams<C, B> { c: C, b: B }
#[verifier::external_body] #[verifier::reject_recursive_types(S)] #[verifier::reject_recursive_types(B)]
pub struct AcceptRecvStream<S, B> { s: S, b: B }
#[verifier::external_body] #[verifier::reject_recursive_types(S)] #[verifier::reject_recursive_types(B)]
pub struct GreaseStatus<S, B> { s: S, b: B }
#[verifier::external_body] pub struct Config { x: u8 }

//@extract h3/src/connection.rs :: - :: struct ConnectionInner
//@attr #[verifier::reject_recursive_types(C)]
//@attr #[verifier::reject_recursive_types(B)]
//@ghost-field raised: Ghost<Seq<Offered>>
//@ghost-field ctrl_taken: Ghost<Seq<FrameTok>>
//@end

impl<C, B> ConnectionInner<C, B> where C: quic::Connection<B>, B: Buf {
    // everything except what the error path may touch (the transport is closed, the handled error is remembered, the offer logged)
    pub open spec fn same_but_error(&self, o: &Self) -> bool {
        &&& self.shared == o.shared
        &&& self.control_send == o.control_send
        &&& self.conn.taken() == o.conn.taken()
        &&& self.conn.opened() == o.conn.opened()
        &&& self.send_grease_frame == o.send_grease_frame
        &&& self.ctrl_taken == o.ctrl_taken
    }
    // ASSUMED-FROM-UNIT: conn_error ConnectionInner::handle_connection_error — the *first* error offered on a connection is
    // what every caller gets back (DESIGN C05); here only: the offer is logged, nothing else that C08/C09 look at moves.
    #[verifier::external_body]
    pub fn handle_connection_error<T: IntoOrigin>(&mut self, error: T) -> (r: ConnectionError)
        ensures final(self).same_but_error(old(self)),
            final(self).raised@ == old(self).raised@.push(error.offered()),
    { unimplemented!() }
    // ASSUMED-FROM-UNIT: conn_error ConnectionInner::poll_connection_error
    #[verifier::external_body]
    pub fn poll_connection_error(&mut self, cx: &mut Context<'_>) -> (r: Poll<Result<(), ConnectionError>>)
        ensures final(self).same_but_error(old(self)), final(self).raised@ == old(self).raised@,
    { unimplemented!() }
    // h3/src/shared_state.rs ConnectionState::set_closing: `closing.store(true, Relaxed)` (see the note on SharedState)
    #[verifier::external_body]
    pub fn set_closing(&mut self)
        ensures final(self).shared.closing(),
            final(self).control_send == old(self).control_send, final(self).conn == old(self).conn,
            final(self).send_grease_frame == old(self).send_grease_frame, final(self).raised == old(self).raised,
            final(self).handled_connection_error == old(self).handled_connection_error, final(self).ctrl_taken == old(self).ctrl_taken,
    { unimplemented!() }
    // ASSUMED-FROM-UNIT: control ConnectionInner::poll_control — the next frame from the peer's control stream
    // (`ctrl_taken` = frames handed to the role-specific driver so far); identifiers in decoded frames are varints (< 2^62)
    #[verifier::external_body]
    pub fn poll_control(&mut self, cx: &mut Context<'_>) -> (r: Poll<Result<Frame<PayloadLen>, ConnectionError>>)
        ensures final(self).shared == old(self).shared, final(self).control_send == old(self).control_send,
            final(self).conn.taken() == old(self).conn.taken(), final(self).conn.opened() == old(self).conn.opened(),
            final(self).send_grease_frame == old(self).send_grease_frame,
            match r {
                Poll::Ready(Ok(f)) => final(self).ctrl_taken@ == old(self).ctrl_taken@.push(frame_tok(f)) && final(self).raised@ == old(self).raised@
                    && (f matches Frame::Goaway(v) ==> v.0 < TWO62()),
                Poll::Ready(Err(_)) => final(self).ctrl_taken@ == old(self).ctrl_taken@,
                Poll::Pending => final(self).ctrl_taken@ == old(self).ctrl_taken@ && final(self).raised@ == old(self).raised@,
            },
    { unimplemented!() }

//@extract h3/src/connection.rs :: impl ConnectionInner<C, B> :: fn poll_accept_bi
//@tag C08 C06
//@qconv 1p
//@kind map_err pollres
//@ret r
//@sig
        ensures final(self).same_but_error(old(self)) || (r matches Poll::Ready(Ok(_))),
            final(self).shared == old(self).shared, final(self).control_send == old(self).control_send,
            final(self).send_grease_frame == old(self).send_grease_frame, final(self).conn.opened() == old(self).conn.opened(),
            final(self).ctrl_taken == old(self).ctrl_taken,
            match r {
                Poll::Ready(Ok(s)) => final(self).conn.taken() == old(self).conn.taken().push(Taken { uid: s.uid(), id: s.sid() })
                    && s.uid() == old(self).conn.taken().len() && s.sid().0 < TWO62()
                    && s.resets().len() == 0 && s.stops().len() == 0,
                _ => final(self).conn.taken() == old(self).conn.taken(),
            },
//@end
}

// ---------------------------------------------------------------------------------------------
impl<S: quic::StreamGhost, B> BufRecvStream<S, B> {
    pub uninterp spec fn inner(&self) -> S;
    // h3/src/stream.rs BufRecvStream::new: wraps the stream, empty buffer
    #[verifier::external_body]
    pub fn new(stream: S) -> (r: Self) ensures r.inner() == stream { unimplemented!() }
}
impl<S: quic::StreamGhost, B> FrameStream<S, B> {
    pub uninterp spec fn inner(&self) -> S;
    // h3/src/frame.rs FrameStream::new: wraps the buffered stream, fresh decoder
    #[verifier::external_body]
    pub fn new(stream: BufRecvStream<S, B>) -> (r: Self) ensures r.inner() == stream.inner() { unimplemented!() }
}
impl<S: quic::SendStream<B>, B: Buf> FrameStream<S, B> {
    // h3/src/frame.rs: `self.stream.send_id()`
    #[verifier::external_body]
    pub fn send_id(&self) -> (r: StreamId) ensures r == self.inner().sid() { unimplemented!() }
}

