// ---- spec library: RFC 7541 §5.2 Huffman string data, string level (C15).  Everything here is ghost.
// The code table is abstract (`hcode`); what is assumed about it is `axiom_hcode` and nothing else.  The same three
// facts are checked for the transcribed table at compile time in kani/_spec.rs (`spec_huff_table_ok`: code lengths
// 5..=30, EOS = thirty ones, no code a prefix of another), and the Kani harnesses c15_huff_* relate the real
// per-symbol decoder / encoder table to that table.
verus! {


// ---------------------------------------------------------------------------------------------
// bit strings
pub open spec fn is_prefix(a: Seq<bool>, b: Seq<bool>) -> bool {
    a.len() <= b.len() && b.subrange(0, a.len() as int) == a
}
pub open spec fn ones(n: nat) -> Seq<bool> { Seq::new(n, |i: int| true) }
pub open spec fn all_ones(b: Seq<bool>) -> bool { forall|i: int| 0 <= i < b.len() ==> b[i] }

/// RFC 7541 Appendix B: the code of symbol c (0..=255) and of EOS (c == 256), most significant bit first.
pub uninterp spec fn hcode(c: int) -> Seq<bool>;

pub open spec fn hcode_ok() -> bool {
    &&& forall|c: int| 0 <= c <= 256 ==> 5 <= #[trigger] hcode(c).len() <= 30
    &&& hcode(256) == ones(30)
    &&& forall|a: int, b: int| 0 <= a <= 256 && 0 <= b <= 256 && a != b ==> !is_prefix(#[trigger] hcode(a), #[trigger] hcode(b))
}
#[verifier::external_body]
pub proof fn axiom_hcode()
    ensures hcode_ok(),
{}

/// concatenated codes of the octets of v
pub open spec fn enc_bits(v: Seq<u8>) -> Seq<bool>
    decreases v.len()
{
    if v.len() == 0 { Seq::empty() } else { hcode(v[0] as int) + enc_bits(v.skip(1)) }
}

pub open spec fn has_code(bits: Seq<bool>) -> bool {
    exists|c: int| 0 <= c <= 256 && is_prefix(#[trigger] hcode(c), bits)
}
pub open spec fn the_code(bits: Seq<bool>) -> int {
    choose|c: int| 0 <= c <= 256 && is_prefix(#[trigger] hcode(c), bits)
}

/// RFC 7541 §5.2 decoding of a bit string
pub open spec fn hdec_bits(bits: Seq<bool>) -> Option<Seq<u8>>
    decreases bits.len() via hdec_bits_decreases
{
    if has_code(bits) {
        let c = the_code(bits);
        if c == 256 { None } else {
            match hdec_bits(bits.skip(hcode(c).len() as int)) {
                Some(r) => Some(seq![c as u8] + r),
                None => None,
            }
        }
    } else if bits.len() < 8 && all_ones(bits) { Some(Seq::empty()) } else { None }
}
#[via_fn]
proof fn hdec_bits_decreases(bits: Seq<bool>) {
    axiom_hcode();
    if has_code(bits) {
        let c = the_code(bits);
        assert(hcode(c).len() >= 5);
    }
}

proof fn lemma_prefix_unique(a: int, b: int, bits: Seq<bool>)
    requires 0 <= a <= 256, 0 <= b <= 256, is_prefix(hcode(a), bits), is_prefix(hcode(b), bits),
    ensures a == b,
{
    axiom_hcode();
    if a != b {
        let x = hcode(a); let y = hcode(b);
        if x.len() <= y.len() {
            assert(y.subrange(0, x.len() as int) =~= bits.subrange(0, x.len() as int)) by {
                assert forall|i: int| 0 <= i < x.len() implies y[i] == bits[i] by { assert(bits.subrange(0, y.len() as int)[i] == y[i]); }
            }
            assert(is_prefix(x, y));
        } else {
            assert(x.subrange(0, y.len() as int) =~= bits.subrange(0, y.len() as int)) by {
                assert forall|i: int| 0 <= i < y.len() implies x[i] == bits[i] by { assert(bits.subrange(0, x.len() as int)[i] == x[i]); }
            }
            assert(is_prefix(y, x));
        }
    }
}

proof fn lemma_ones_no_code(bits: Seq<bool>)
    requires bits.len() < 30, all_ones(bits),
    ensures !has_code(bits),
{
    axiom_hcode();
    if has_code(bits) {
        let c = the_code(bits);
        let x = hcode(c);
        assert(x.len() <= bits.len());
        assert(c != 256);
        assert(x =~= hcode(256).subrange(0, x.len() as int)) by {
            assert forall|i: int| 0 <= i < x.len() implies x[i] == true by { assert(bits.subrange(0, x.len() as int)[i] == x[i]); }
        }
        assert(is_prefix(x, hcode(256)));
    }
}

/// [C15.huff.string.roundtrip] bit level: codes of v followed by at most seven ones decode to v
pub proof fn lemma_dec_enc_bits(v: Seq<u8>, p: nat)
    requires p < 8,
    ensures hdec_bits(enc_bits(v) + ones(p)) == Some(v),
    decreases v.len()
{
    axiom_hcode();
    let bits = enc_bits(v) + ones(p);
    if v.len() == 0 {
        assert(bits =~= ones(p));
        lemma_ones_no_code(bits);
        assert(v =~= Seq::empty());
    } else {
        let a = v[0] as int;
        let rest = enc_bits(v.skip(1)) + ones(p);
        assert(bits =~= hcode(a) + rest);
        assert(bits.subrange(0, hcode(a).len() as int) =~= hcode(a));
        assert(is_prefix(hcode(a), bits));
        let c = the_code(bits);
        lemma_prefix_unique(a, c, bits);
        assert(bits.skip(hcode(a).len() as int) =~= rest);
        lemma_dec_enc_bits(v.skip(1), p);
        assert(seq![a as u8] + v.skip(1) =~= v);
    }
}

/// [C15.huff.string.exact] whatever decodes is a sequence of codes followed by at most seven ones (§5.2 language)
pub proof fn lemma_dec_sound(bits: Seq<bool>)
    ensures hdec_bits(bits) matches Some(v) ==> exists|p: nat| p < 8 && bits == enc_bits(v) + #[trigger] ones(p),
    decreases bits.len()
{
    axiom_hcode();
    if has_code(bits) {
        let c = the_code(bits);
        if c != 256 {
            let l = hcode(c).len() as int;
            let tail = bits.skip(l);
            lemma_dec_sound(tail);
            if let Some(r) = hdec_bits(tail) {
                let p = choose|p: nat| p < 8 && tail == enc_bits(r) + #[trigger] ones(p);
                let v = seq![c as u8] + r;
                assert(v.skip(1) =~= r);
                assert(bits =~= hcode(c) + tail) by { assert(bits.subrange(0, l) == hcode(c)); }
                assert(bits =~= enc_bits(v) + ones(p));
            }
        }
    } else if bits.len() < 8 && all_ones(bits) {
        assert(bits =~= enc_bits(Seq::<u8>::empty()) + ones(bits.len()));
    }
}

pub proof fn lemma_enc_bits_len(v: Seq<u8>)
    ensures 5 * v.len() <= enc_bits(v).len() <= 30 * v.len(),
    decreases v.len()
{
    axiom_hcode();
    if v.len() > 0 { lemma_enc_bits_len(v.skip(1)); }
}



// ---- octets <-> bits (big-endian: bit 0 of the string is the most significant bit of octet 0, as in
// kani/_spec.rs::spec_bit)
/// the n low bits of x, most significant first
pub open spec fn val_bits(x: nat, n: nat) -> Seq<bool>
    decreases n
{
    if n == 0 { Seq::empty() } else { val_bits(x / 2, (n - 1) as nat).push(x % 2 == 1) }
}
/// the number whose binary digits are b, most significant first
pub open spec fn bits_val(b: Seq<bool>) -> nat
    decreases b.len()
{
    if b.len() == 0 { 0 } else { 2 * bits_val(b.drop_last()) + if b.last() { 1nat } else { 0nat } }
}
pub open spec fn bits_of(data: Seq<u8>) -> Seq<bool>
    decreases data.len()
{
    if data.len() == 0 { Seq::empty() } else { val_bits(data[0] as nat, 8) + bits_of(data.skip(1)) }
}
/// pack a bit string whose length is a multiple of 8
pub open spec fn bytes_of(bits: Seq<bool>) -> Seq<u8>
    decreases bits.len()
{
    if bits.len() < 8 { Seq::empty() } else { seq![bits_val(bits.take(8)) as u8] + bytes_of(bits.skip(8)) }
}

pub proof fn lemma_val_bits_len(x: nat, n: nat)
    ensures val_bits(x, n).len() == n,
    decreases n
{
    if n > 0 { lemma_val_bits_len(x / 2, (n - 1) as nat); }
}
pub proof fn lemma_bits_val_bound(b: Seq<bool>)
    ensures bits_val(b) < pow2(b.len()),
    decreases b.len()
{
    if b.len() == 0 { assert(pow2(0) == 1) by { reveal_with_fuel(pow2, 1); } }
    else { lemma_bits_val_bound(b.drop_last()); assert(pow2(b.len()) == 2 * pow2((b.len() - 1) as nat)) by { reveal_with_fuel(pow2, 1); } }
}
pub open spec fn pow2(n: nat) -> nat decreases n { if n == 0 { 1 } else { 2 * pow2((n - 1) as nat) } }

pub proof fn lemma_val_bits_val(b: Seq<bool>)
    ensures val_bits(bits_val(b), b.len()) == b,
    decreases b.len()
{
    if b.len() > 0 {
        let v = bits_val(b.drop_last());
        let t: nat = if b.last() { 1 } else { 0 };
        lemma_val_bits_val(b.drop_last());
        assert((2 * v + t) / 2 == v);
        assert(((2 * v + t) % 2 == 1) == b.last());
        assert(b.drop_last().push(b.last()) =~= b);
    } else {
        assert(val_bits(0, 0) =~= b);
    }
}
pub proof fn lemma_bits_of_len(data: Seq<u8>)
    ensures bits_of(data).len() == 8 * data.len(),
    decreases data.len()
{
    if data.len() > 0 { lemma_val_bits_len(data[0] as nat, 8); lemma_bits_of_len(data.skip(1)); }
}
/// packing then unpacking a whole number of octets gives the bits back
pub proof fn lemma_bits_of_bytes_of(bits: Seq<bool>)
    requires bits.len() % 8 == 0,
    ensures bits_of(bytes_of(bits)) == bits, bytes_of(bits).len() * 8 == bits.len(),
    decreases bits.len()
{
    if bits.len() >= 8 {
        let h = bits.take(8);
        let d = bytes_of(bits);
        lemma_bits_val_bound(h);
        assert(pow2(8) == 256) by { reveal_with_fuel(pow2, 9); }
        lemma_val_bits_val(h);
        lemma_bits_of_bytes_of(bits.skip(8));
        assert(d[0] as nat == bits_val(h));
        assert(d.skip(1) =~= bytes_of(bits.skip(8)));
        assert(h + bits.skip(8) =~= bits);
    } else {
        assert(bits =~= Seq::empty());
    }
}

pub proof fn lemma_bits_val_bits(x: nat, n: nat)
    ensures bits_val(val_bits(x, n)) == x % pow2(n),
    decreases n
{
    if n == 0 {
        assert(pow2(0) == 1) by { reveal_with_fuel(pow2, 1); }
    } else {
        let m = pow2((n - 1) as nat);
        assert(pow2(n) == 2 * m) by { reveal_with_fuel(pow2, 1); }
        lemma_pow2_pos((n - 1) as nat);
        let q = x / 2; let r = x % 2;
        lemma_bits_val_bits(q, (n - 1) as nat);
        let b = val_bits(x, n);
        assert(b.drop_last() =~= val_bits(q, (n - 1) as nat));
        assert(b.last() == (r == 1));
        assert(bits_val(b) == 2 * (q % m) + r);
        let qq = q / m; let qr = q % m;
        assert(q == m * qq + qr) by { vstd::arithmetic::div_mod::lemma_fundamental_div_mod(q as int, m as int); }
        assert(x == qq * (2 * m) + (2 * qr + r)) by (nonlinear_arith) requires x == 2 * q + r, q == m * qq + qr;
        assert(0 <= 2 * qr + r < 2 * m) by { vstd::arithmetic::div_mod::lemma_mod_bound(q as int, m as int); }
        vstd::arithmetic::div_mod::lemma_fundamental_div_mod_converse(x as int, (2 * m) as int, qq as int, (2 * qr + r) as int);
    }
}
pub proof fn lemma_pow2_pos(n: nat)
    ensures pow2(n) > 0,
    decreases n
{
    reveal_with_fuel(pow2, 1);
    if n > 0 { lemma_pow2_pos((n - 1) as nat); }
}
/// unpacking then packing gives the octets back
pub proof fn lemma_bytes_of_bits_of(d: Seq<u8>)
    ensures bytes_of(bits_of(d)) == d,
    decreases d.len()
{
    lemma_bits_of_len(d);
    if d.len() == 0 {
        assert(bytes_of(bits_of(d)) =~= d);
    } else {
        let h = val_bits(d[0] as nat, 8);
        lemma_val_bits_len(d[0] as nat, 8);
        lemma_bits_of_len(d.skip(1));
        let b = bits_of(d);
        assert(b.take(8) =~= h);
        assert(b.skip(8) =~= bits_of(d.skip(1)));
        lemma_bits_val_bits(d[0] as nat, 8);
        assert(pow2(8) == 256) by { reveal_with_fuel(pow2, 9); }
        lemma_bytes_of_bits_of(d.skip(1));
        assert(seq![d[0]] + d.skip(1) =~= d);
    }
}


// ---- string level
pub open spec fn pad_len(n: nat) -> nat { ((8 - n % 8) % 8) as nat }
/// What a Huffman encoder writes: the codes of the octets of v, padded with ones to the next octet boundary.
pub open spec fn huff_enc(v: Seq<u8>) -> Seq<u8> { bytes_of(enc_bits(v) + ones(pad_len(enc_bits(v).len()))) }
/// RFC 7541 §5.2 decoding of string data (None = decoding error).
pub open spec fn huff_dec(data: Seq<u8>) -> Option<Seq<u8>> { hdec_bits(bits_of(data)) }
/// The §5.2 language: codes of non-EOS symbols followed by at most seven one-bits.
pub open spec fn huff_valid(data: Seq<u8>, v: Seq<u8>) -> bool {
    exists|p: nat| p < 8 && bits_of(data) == enc_bits(v) + #[trigger] ones(p)
}

/// String-level consequences of the per-symbol facts, for strings of every length.
pub proof fn lemma_huff_string(v: Seq<u8>, data: Seq<u8>)
    ensures
        huff_dec(huff_enc(v)) == Some(v),                                   // [C15.huff.string.roundtrip]
        8 * huff_enc(v).len() == enc_bits(v).len() + pad_len(enc_bits(v).len()), // [C15.huff.string.minimal]
        huff_valid(data, v) ==> huff_dec(data) == Some(v),                  // [C15.huff.string.accept]
        huff_dec(data) == Some(v) ==> huff_valid(data, v),                  // [C15.huff.string.exact]
        huff_dec(data) == Some(v) ==> 5 * v.len() <= 8 * data.len(),        // [C15.huff.string.len]
{
    let e = enc_bits(v);
    let p = pad_len(e.len());
    assert((e.len() + p) % 8 == 0 && p < 8) by (nonlinear_arith) requires p == ((8 - e.len() % 8) % 8) as nat;
    lemma_bits_of_bytes_of(e + ones(p));
    lemma_dec_enc_bits(v, p);
    if huff_valid(data, v) {
        let q = choose|q: nat| q < 8 && bits_of(data) == enc_bits(v) + #[trigger] ones(q);
        lemma_dec_enc_bits(v, q);
    }
    lemma_dec_sound(bits_of(data));
    if huff_dec(data) == Some(v) {
        let q = choose|q: nat| q < 8 && bits_of(data) == enc_bits(v) + #[trigger] ones(q);
        lemma_bits_of_len(data);
        lemma_enc_bits_len(v);
    }
}
} // verus!
