//! Drift check for the `mod quinn` shim of /verif/units/quinn_adapter.rs.in (C17).
//!
//! NOT a proof and not run by `./check`: it is compiled (and its three tiny tests run) against the REAL `quinn` crate
//! that /repo's Cargo.lock pins, so that a shim which no longer mirrors the installed quinn fails here, not in a proof.
//! Use: copy to `<scratch copy of /repo>/h3-quinn/tests/shimcheck.rs` and
//!     cargo test --offline -p h3-quinn --test shimcheck
//! Every `match` below is exhaustive WITHOUT a wildcard arm: a variant added to / removed from / reshaped in quinn is a
//! compile error.  The `fn` pointer coercions pin the signatures the shim's methods were written from.
#![allow(dead_code, unused_variables, clippy::all)]

use std::pin::Pin;
use std::task::{Context, Poll};

use bytes::Bytes;
use h3_quinn::quinn;

// ---- enums mirrored variant for variant in the unit -------------------------------------------------------------

fn connection_error_variants(e: quinn::ConnectionError) -> u8 {
    match e {
        quinn::ConnectionError::VersionMismatch => 0,
        quinn::ConnectionError::TransportError(_t) => 1, // quinn_proto::TransportError (not re-exported by quinn); opaque in the shim
        quinn::ConnectionError::ConnectionClosed(c) => {
            let _: quinn::ConnectionClose = c;
            2
        }
        quinn::ConnectionError::ApplicationClosed(a) => {
            // the two fields the shim declares, with their types
            let quinn::ApplicationClose { error_code, reason } = a;
            let _: quinn::VarInt = error_code;
            let _: Bytes = reason;
            3
        }
        quinn::ConnectionError::Reset => 4,
        quinn::ConnectionError::TimedOut => 5,
        quinn::ConnectionError::LocallyClosed => 6,
        quinn::ConnectionError::CidsExhausted => 7,
    }
}

fn read_error_variants(e: quinn::ReadError) -> u8 {
    match e {
        quinn::ReadError::Reset(code) => {
            let _: quinn::VarInt = code;
            0
        }
        quinn::ReadError::ConnectionLost(c) => {
            let _: quinn::ConnectionError = c;
            1
        }
        quinn::ReadError::ClosedStream => 2,
        quinn::ReadError::IllegalOrderedRead => 3,
        quinn::ReadError::ZeroRttRejected => 4,
    }
}

fn write_error_variants(e: quinn::WriteError) -> u8 {
    match e {
        quinn::WriteError::Stopped(code) => {
            let _: quinn::VarInt = code;
            0
        }
        quinn::WriteError::ConnectionLost(c) => {
            let _: quinn::ConnectionError = c;
            1
        }
        quinn::WriteError::ClosedStream => 2,
        quinn::WriteError::ZeroRttRejected => 3,
    }
}

#[cfg(feature = "datagram")]
fn send_datagram_error_variants(e: quinn::SendDatagramError) -> u8 {
    match e {
        quinn::SendDatagramError::UnsupportedByPeer => 0,
        quinn::SendDatagramError::Disabled => 1,
        quinn::SendDatagramError::TooLarge => 2,
        quinn::SendDatagramError::ConnectionLost(c) => {
            let _: quinn::ConnectionError = c;
            3
        }
    }
}

fn chunk_shape(c: quinn::Chunk) {
    let quinn::Chunk { offset, bytes } = c;
    let _: u64 = offset;
    let _: Bytes = bytes;
}

// ---- h3's own error enums (extracted by the unit; listed here so that the table postconditions stay total) --------

fn h3_connection_error_incoming(e: h3::quic::ConnectionErrorIncoming) -> u8 {
    match e {
        h3::quic::ConnectionErrorIncoming::ApplicationClose { error_code } => {
            let _: u64 = error_code;
            0
        }
        h3::quic::ConnectionErrorIncoming::Timeout => 1,
        h3::quic::ConnectionErrorIncoming::InternalError(s) => {
            let _: String = s;
            2
        }
        h3::quic::ConnectionErrorIncoming::Undefined(a) => {
            let _: std::sync::Arc<dyn std::error::Error + Send + Sync> = a;
            3
        }
    }
}

fn h3_stream_error_incoming(e: h3::quic::StreamErrorIncoming) -> u8 {
    match e {
        h3::quic::StreamErrorIncoming::ConnectionErrorIncoming { connection_error } => {
            let _: h3::quic::ConnectionErrorIncoming = connection_error;
            0
        }
        h3::quic::StreamErrorIncoming::StreamTerminated { error_code } => {
            let _: u64 = error_code;
            1
        }
        h3::quic::StreamErrorIncoming::Unknown(b) => {
            let _: Box<dyn std::error::Error + Send + Sync> = b;
            2
        }
    }
}

// ---- signatures the shim's contracts were written from -----------------------------------------------------------

fn signatures() {
    // SendStream
    let _: for<'a, 'b, 'c, 'd> fn(
        Pin<&'a mut quinn::SendStream>,
        &'b mut Context<'c>,
        &'d [u8],
    ) -> Poll<Result<usize, quinn::WriteError>> = quinn::SendStream::poll_write;
    let _: fn(&mut quinn::SendStream) -> Result<(), quinn::ClosedStream> = quinn::SendStream::finish;
    let _: fn(&mut quinn::SendStream, quinn::VarInt) -> Result<(), quinn::ClosedStream> =
        quinn::SendStream::reset;
    let _: fn(&quinn::SendStream) -> quinn::StreamId = quinn::SendStream::id;
    // RecvStream
    let _: fn(&mut quinn::RecvStream, quinn::VarInt) -> Result<(), quinn::ClosedStream> =
        quinn::RecvStream::stop;
    let _: fn(&quinn::RecvStream) -> quinn::StreamId = quinn::RecvStream::id;
    let _: fn(&quinn::RecvStream) -> bool = quinn::RecvStream::is_0rtt;
    // Connection
    let _: fn(&quinn::Connection, quinn::VarInt, &[u8]) = quinn::Connection::close;
    // VarInt
    let _: fn(u64) -> Result<quinn::VarInt, quinn::VarIntBoundsExceeded> = quinn::VarInt::from_u64;
    let _: fn(quinn::VarInt) -> u64 = quinn::VarInt::into_inner;
    let _: fn(quinn::VarInt) -> u64 = <u64 as From<quinn::VarInt>>::from;
    // StreamId: `Copy`, convertible to u64
    fn is_copy<T: Copy>() {}
    is_copy::<quinn::StreamId>();
    let _: fn(quinn::StreamId) -> u64 = <u64 as From<quinn::StreamId>>::from;
    // the streams are Unpin (rule R15 turns `Pin::new(&mut s)` into `&mut s`)
    fn is_unpin<T: Unpin>() {}
    is_unpin::<quinn::SendStream>();
    is_unpin::<quinn::RecvStream>();
}

/// `read_chunk(&mut self, max_length: usize, ordered: bool)` resolves to `Result<Option<Chunk>, ReadError>` — the
/// output type of the R19 future shim
async fn read_chunk_signature(s: &mut quinn::RecvStream) -> Result<Option<quinn::Chunk>, quinn::ReadError> {
    s.read_chunk(usize::MAX, true).await
}

// ---- the few value-level facts the shim states ---------------------------------------------------------------------

const _: () = assert!(quinn::VarInt::MAX.into_inner() == (1u64 << 62) - 1);

#[test]
fn varint_from_u64_boundary() {
    assert_eq!(quinn::VarInt::from_u64((1 << 62) - 1).unwrap().into_inner(), (1 << 62) - 1);
    assert!(quinn::VarInt::from_u64(1 << 62).is_err());
    assert!(quinn::VarInt::from_u64(u64::MAX).is_err());
    assert_eq!(quinn::VarInt::from_u64(0).unwrap().into_inner(), 0);
}

#[test]
fn varint_into_u64_is_the_value() {
    let v = quinn::VarInt::from_u64(0x0123_4567_89ab_cdef).unwrap();
    assert_eq!(u64::from(v), 0x0123_4567_89ab_cdef);
    assert_eq!(v.into_inner(), 0x0123_4567_89ab_cdef);
}

#[test]
fn h3_stream_id_accepts_exactly_the_varint_range() {
    use std::convert::TryFrom;
    assert!(h3::quic::StreamId::try_from((1u64 << 62) - 1).is_ok());
    assert!(h3::quic::StreamId::try_from(1u64 << 62).is_err());
}
